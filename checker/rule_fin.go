package main

import (
	"fmt"
	"go/constant"
	"go/token"
	"go/types"
	"math"
	"sort"

	"golang.org/x/tools/go/ssa"
)

// FIN — finiteness closure (DESIGN.md §3 FIN).
//
// Inductive invariant: every number that is a JSONata value is a finite double. It holds for
// decoded JSON input and number literals (assumption), and is preserved iff every float that
// *becomes* a value — a float result of a function bound in the base environment, or a float
// boxed into an interface / reflect.Value under Eval — cannot be ±Inf or NaN. The engine
// computes for every float64 SSA value the set {Inf, NaN} it may carry (ascending fixpoint
// over the module call graph), removes a bit where a math.IsInf / math.IsNaN test on the same
// SSA value dominates the use with its true edge leaving, and demands the empty set at sinks.

const (
	bitInf uint8 = 1
	bitNaN uint8 = 2
)

type finEngine struct {
	c        *Ctx
	g        *MCG
	raw      map[ssa.Value]uint8
	why      map[ssa.Value]string
	paramB   map[*ssa.Parameter]uint8
	retB     map[*ssa.Function][]uint8
	hypParam map[*ssa.Function]bool // params finite by the inductive hypothesis (exported / boxed / callback targets)
	guards   map[ssa.Value][]finGuard
	changed  bool
}

type finGuard struct {
	bit uint8
	blk *ssa.BasicBlock // block entered only when the test was false
}

func isFloat(t types.Type) bool {
	b, ok := t.Underlying().(*types.Basic)
	return ok && (b.Kind() == types.Float64 || b.Kind() == types.Float32 || b.Kind() == types.UntypedFloat)
}

func bitsStr(b uint8) string {
	switch b {
	case 0:
		return "finite"
	case bitInf:
		return "may be ±Inf"
	case bitNaN:
		return "may be NaN"
	}
	return "may be ±Inf or NaN"
}

func newFIN(c *Ctx, g *MCG) *finEngine {
	e := &finEngine{c: c, g: g, raw: map[ssa.Value]uint8{}, why: map[ssa.Value]string{}, paramB: map[*ssa.Parameter]uint8{},
		retB: map[*ssa.Function][]uint8{}, hypParam: map[*ssa.Function]bool{}, guards: map[ssa.Value][]finGuard{}}
	unknownCallers := map[*ssa.Function]bool{}
	for _, f := range g.Boxed {
		unknownCallers[f] = true
	}
	for _, es := range g.Out {
		for _, ed := range es {
			if ed.Kind == "callback" || ed.Kind == "reflect" {
				unknownCallers[ed.Callee] = true
			}
		}
	}
	for _, f := range g.Funcs {
		if len(f.Blocks) == 0 {
			continue
		}
		exported := f.Parent() == nil && token.IsExported(f.Name())
		if f.Synthetic != "" && f.Object() != nil {
			exported = token.IsExported(f.Object().Name())
		}
		e.hypParam[f] = exported || unknownCallers[f]
		e.retB[f] = make([]uint8, f.Signature.Results().Len())
		// guards
		for _, b := range f.Blocks {
			if len(b.Instrs) == 0 {
				continue
			}
			iff, ok := b.Instrs[len(b.Instrs)-1].(*ssa.If)
			if !ok {
				continue
			}
			call, ok := iff.Cond.(*ssa.Call)
			if !ok {
				continue
			}
			callee := call.Call.StaticCallee()
			var bit uint8
			switch {
			case isPkgFunc(callee, "math", "IsInf"):
				// only the two-sided test IsInf(x, 0) rules out both infinities
				if k, ok := call.Call.Args[1].(*ssa.Const); ok && k.Value != nil && constant.Sign(k.Value) == 0 {
					bit = bitInf
				}
			case isPkgFunc(callee, "math", "IsNaN"):
				bit = bitNaN
			}
			if bit == 0 {
				continue
			}
			fb := b.Succs[1]
			if len(fb.Preds) != 1 {
				continue
			}
			x := call.Call.Args[0]
			e.guards[x] = append(e.guards[x], finGuard{bit, fb})
		}
	}
	for round := 0; round < 100; round++ {
		e.changed = false
		for _, f := range g.Funcs {
			if len(f.Blocks) == 0 {
				continue
			}
			for _, b := range f.Blocks {
				for _, ins := range b.Instrs {
					if v, ok := ins.(ssa.Value); ok && (isFloat(v.Type()) || isTuple(v.Type())) {
						e.update(v)
					}
					switch ins := ins.(type) {
					case *ssa.Return:
						if isSuccessReturn(ins) {
							for i, res := range ins.Results {
								if isFloat(res.Type()) {
									nb := e.retB[f][i] | e.at(res, b)
									if nb != e.retB[f][i] {
										e.retB[f][i] = nb
										e.changed = true
									}
								}
							}
						}
					case ssa.CallInstruction:
						for _, callee := range g.Sites[ins] {
							if e.hypParam[callee] {
								continue
							}
							args := ins.Common().Args
							off := 0
							if ins.Common().IsInvoke() {
								off = 1
							}
							for i, a := range args {
								if i+off >= len(callee.Params) || !isFloat(a.Type()) {
									continue
								}
								p := callee.Params[i+off]
								nb := e.paramB[p] | e.at(a, b)
								if nb != e.paramB[p] {
									e.paramB[p] = nb
									e.changed = true
								}
							}
						}
					}
				}
			}
		}
		if !e.changed {
			return e
		}
	}
	panic("FIN fixpoint did not converge")
}

func isTuple(t types.Type) bool { _, ok := t.(*types.Tuple); return ok }

// at returns the bits v may carry when used in block b (guards applied).
func (e *finEngine) at(v ssa.Value, b *ssa.BasicBlock) uint8 {
	bits := e.bits(v)
	if bits == 0 {
		return 0
	}
	for _, g := range e.guards[v] {
		if g.blk.Parent() == b.Parent() && g.blk.Dominates(b) {
			bits &^= g.bit
		}
	}
	return bits
}

func (e *finEngine) bits(v ssa.Value) uint8 {
	switch v := v.(type) {
	case *ssa.Const:
		if v.Value != nil && v.Value.Kind() == constant.Float || v.Value != nil && v.Value.Kind() == constant.Int {
			f, _ := constant.Float64Val(v.Value)
			if math.IsInf(f, 0) {
				return bitInf
			}
		}
		return 0
	case *ssa.Parameter:
		return e.paramB[v]
	}
	return e.raw[v]
}

func (e *finEngine) setRaw(v ssa.Value, b uint8, why string) {
	if e.raw[v]|b != e.raw[v] {
		e.raw[v] |= b
		e.changed = true
		e.why[v] = why
	}
}

// smallBound: |v| is bounded by a constant far below the overflow threshold on every path.
func (e *finEngine) smallBound(v ssa.Value, depth int) bool {
	if depth > 6 {
		return false
	}
	switch v := v.(type) {
	case *ssa.Const:
		if v.Value == nil {
			return false
		}
		f, _ := constant.Float64Val(v.Value)
		return math.Abs(f) <= 1<<53
	case *ssa.Call:
		callee := v.Call.StaticCallee()
		switch {
		case isPkgFunc(callee, "math", "Mod"):
			return e.smallBound(v.Call.Args[1], depth+1)
		case isPkgFunc(callee, "math", "Abs"), isPkgFunc(callee, "math", "Floor"), isPkgFunc(callee, "math", "Ceil"), isPkgFunc(callee, "math", "Trunc"):
			return e.smallBound(v.Call.Args[0], depth+1)
		}
	case *ssa.Extract:
		if call, ok := v.Tuple.(*ssa.Call); ok && isPkgFunc(call.Call.StaticCallee(), "math", "Modf") {
			if v.Index == 1 {
				return true // fractional part: |frac| < 1
			}
			return e.smallBound(call.Call.Args[0], depth+1)
		}
	case *ssa.UnOp:
		if v.Op == token.SUB {
			return e.smallBound(v.X, depth+1)
		}
	case *ssa.Convert:
		if b, ok := v.X.Type().Underlying().(*types.Basic); ok && b.Info()&types.IsInteger != 0 {
			return false // a 64-bit integer is not "small" here (2^63 is fine for +, but keep the rule tight)
		}
	}
	return false
}

func (e *finEngine) update(v ssa.Value) {
	blk := v.(ssa.Instruction).Block()
	switch v := v.(type) {
	case *ssa.BinOp:
		if !isFloat(v.Type()) {
			return
		}
		in := e.at(v.X, blk) | e.at(v.Y, blk)
		switch v.Op {
		case token.ADD, token.SUB:
			if e.smallBound(v.X, 0) || e.smallBound(v.Y, 0) {
				// finite ± small cannot overflow: MaxFloat64 ± c rounds back to a finite value for |c| < 2^970
				e.setRaw(v, in, "operand")
				return
			}
			e.setRaw(v, in|bitInf, "float "+v.Op.String()+" can overflow")
			if e.at(v.X, blk)&bitInf != 0 && e.at(v.Y, blk)&bitInf != 0 {
				e.setRaw(v, bitNaN, "Inf - Inf")
			}
		case token.MUL:
			e.setRaw(v, in|bitInf, "float * can overflow")
			if in&bitInf != 0 {
				e.setRaw(v, bitNaN, "0 * Inf")
			}
		case token.QUO:
			if k, ok := v.Y.(*ssa.Const); ok && k.Value != nil {
				f, _ := constant.Float64Val(k.Value)
				if math.Abs(f) >= 1 {
					e.setRaw(v, in, "operand")
					return
				}
			}
			e.setRaw(v, in|bitInf|bitNaN, "float / can overflow, divide by zero, or be 0/0")
		}
	case *ssa.UnOp:
		if !isFloat(v.Type()) {
			return
		}
		if v.Op == token.SUB {
			e.setRaw(v, e.at(v.X, blk), "negation of operand")
		}
		// loads: finite by the inductive hypothesis
	case *ssa.Phi:
		if !isFloat(v.Type()) {
			return
		}
		for i, ed := range v.Edges {
			e.setRaw(v, e.at(ed, blk.Preds[i]), "phi edge: "+e.why[ed])
		}
	case *ssa.Convert:
		if !isFloat(v.Type()) {
			return
		}
		if isFloat(v.X.Type()) {
			e.setRaw(v, e.at(v.X, blk), "conversion of operand")
		}
	case *ssa.ChangeType:
		if isFloat(v.Type()) {
			e.setRaw(v, e.at(v.X, blk), "operand")
		}
	case *ssa.Extract:
		if !isFloat(v.Type()) {
			return
		}
		call, ok := v.Tuple.(*ssa.Call)
		if !ok {
			return
		}
		e.setRaw(v, e.callBits(call, v.Index, v), e.why[v])
	case *ssa.Call:
		if !isFloat(v.Type()) {
			return
		}
		e.setRaw(v, e.callBits(v, 0, v), e.why[v])
	}
}

// errChecked: the error result of a (T, error) call is compared with nil and the float
// result idx is only used on the err == nil side.
func errCheckedUse(call *ssa.Call, fl *ssa.Extract) bool {
	refs := call.Referrers()
	if refs == nil {
		return false
	}
	var errv *ssa.Extract
	for _, r := range *refs {
		if ex, ok := r.(*ssa.Extract); ok && isErrorType(ex.Type()) {
			errv = ex
		}
	}
	if errv == nil || errv.Referrers() == nil {
		return false
	}
	// find `if err == nil` / `if err != nil`
	for _, r := range *errv.Referrers() {
		bo, ok := r.(*ssa.BinOp)
		if !ok || (bo.Op != token.EQL && bo.Op != token.NEQ) || bo.Referrers() == nil {
			continue
		}
		for _, rr := range *bo.Referrers() {
			iff, ok := rr.(*ssa.If)
			if !ok {
				continue
			}
			okBlk := iff.Block().Succs[0]
			if bo.Op == token.NEQ {
				okBlk = iff.Block().Succs[1]
			}
			if len(okBlk.Preds) != 1 {
				continue
			}
			all := true
			if fl.Referrers() != nil {
				for _, u := range *fl.Referrers() {
					if _, dbg := u.(*ssa.DebugRef); dbg {
						continue
					}
					ub := u.Block()
					if phi, isPhi := u.(*ssa.Phi); isPhi {
						// the use is on the incoming edge
						for i, ed := range phi.Edges {
							if ed == ssa.Value(fl) && !okBlk.Dominates(ub.Preds[i]) {
								all = false
							}
						}
						continue
					}
					if !okBlk.Dominates(ub) {
						all = false
					}
				}
			}
			if all {
				return true
			}
		}
	}
	return false
}

func (e *finEngine) callBits(call *ssa.Call, idx int, res ssa.Value) uint8 {
	blk := call.Block()
	callee := call.Call.StaticCallee()
	arg := func(i int) uint8 {
		if i < len(call.Call.Args) {
			return e.at(call.Call.Args[i], blk)
		}
		return 0
	}
	if callee == nil {
		var b uint8
		for _, c := range e.g.Sites[call] {
			if idx < len(e.retB[c]) {
				b |= e.retB[c][idx]
			}
		}
		e.why[res] = "result of a dynamic call"
		return b
	}
	if p := fnPkg(callee); p != nil && !e.g.InSc[callee] {
		name := callee.Name()
		switch p.Path() {
		case "math":
			switch name {
			case "Abs", "Floor", "Ceil", "Trunc", "Round", "RoundToEven":
				e.why[res] = "math." + name + " of operand"
				return arg(0)
			case "Max", "Min", "Copysign", "Nextafter":
				e.why[res] = "math." + name + " of operands"
				return arg(0) | arg(1)
			case "Modf":
				if idx == 1 {
					return 0
				}
				return arg(0)
			case "Mod", "Remainder":
				if k, ok := call.Call.Args[1].(*ssa.Const); ok && k.Value != nil && constant.Sign(k.Value) != 0 {
					if arg(0) == 0 {
						return 0 // finite x mod non-zero constant
					}
				}
				e.why[res] = "math." + name + " is NaN for a zero divisor or an infinite dividend"
				return arg(0) | bitNaN
			case "Sqrt":
				// NaN for negative input unless a dominating x < 0 test returns
				if !negGuarded(call) {
					e.why[res] = "math.Sqrt of a possibly negative operand is NaN"
					return arg(0) | bitNaN
				}
				return arg(0)
			case "Pow", "Exp", "Exp2", "Log", "Log2", "Log10", "Log1p", "Expm1", "Gamma", "Inf", "NaN", "Float64frombits", "Ldexp", "Hypot", "Cbrt", "Sinh", "Cosh", "Tan", "Atanh", "Acosh", "Asin", "Acos":
				e.why[res] = "math." + name + " can produce ±Inf or NaN"
				return bitInf | bitNaN
			}
			e.why[res] = "math." + name + " (unmodelled: assumed able to produce ±Inf or NaN)"
			return bitInf | bitNaN
		case "strconv":
			if name == "ParseFloat" {
				if ex, ok := res.(*ssa.Extract); ok && errCheckedUse(call, ex) {
					return 0
				}
				e.why[res] = "strconv.ParseFloat returns ±Inf with ErrRange and its error is not checked before the value is used"
				return bitInf
			}
		case "math/rand":
			return 0
		}
		// reflect.Value.Float, time, etc.: values from the JSONata universe / integers
		return 0
	}
	if idx < len(e.retB[callee]) {
		b := e.retB[callee][idx]
		if b != 0 {
			e.why[res] = "success return of " + shortFn(callee) + " " + bitsStr(b)
		}
		return b
	}
	return 0
}

// negGuarded: the Sqrt call is dominated by the false edge of `x < 0` on its argument.
func negGuarded(call *ssa.Call) bool {
	x := call.Call.Args[0]
	f := call.Parent()
	for _, b := range f.Blocks {
		if len(b.Instrs) == 0 {
			continue
		}
		iff, ok := b.Instrs[len(b.Instrs)-1].(*ssa.If)
		if !ok {
			continue
		}
		bo, ok := iff.Cond.(*ssa.BinOp)
		if !ok || bo.Op != token.LSS || bo.X != x {
			continue
		}
		k, ok := bo.Y.(*ssa.Const)
		if !ok || k.Value == nil || constant.Sign(k.Value) != 0 {
			continue
		}
		fb := b.Succs[1]
		if len(fb.Preds) == 1 && fb.Dominates(call.Block()) {
			return true
		}
	}
	return false
}

// extBoxedFinite: out-of-scope functions bound in the base environment and why their float
// results are finite for finite arguments.
var extBoxedFinite = map[string]string{
	"math.Abs":   "|x| of a finite x is finite",
	"math.Floor": "floor of a finite x is finite",
	"math.Ceil":  "ceil of a finite x is finite",
}

// runFINBoxed: sink S1 — float results of every function bound in the base environment.
func runFINBoxed(c *Ctx, e *finEngine, r *Result, rule string, only map[string]bool) int {
	n := 0
	for _, f := range e.g.Boxed {
		if only != nil && !only[shortFn(f)] {
			continue
		}
		res := f.Signature.Results()
		for i := 0; i < res.Len(); i++ {
			if !isFloat(res.At(i).Type()) {
				continue
			}
			n += e.checkReturns(c, r, rule, f, i)
		}
	}
	for _, f := range e.g.BoxedExt {
		if only != nil {
			continue
		}
		res := f.Signature.Results()
		for i := 0; i < res.Len(); i++ {
			if !isFloat(res.At(i).Type()) {
				continue
			}
			n++
			name := fnPkg(f).Path() + "." + f.Name()
			o := Obligation{Rule: rule, Key: "boxed-ext:" + name, Fn: name, Pos: "-"}
			if why, ok := extBoxedFinite[name]; ok {
				o.Verdict, o.Reason = Discharged, "library function bound as a built-in: "+why
			} else {
				o.Verdict, o.Reason = Finding, "library function with a float result is bound as a built-in and is not in the reviewed finiteness table"
			}
			r.Add(o)
		}
	}
	return n
}

func (e *finEngine) checkReturns(c *Ctx, r *Result, rule string, f *ssa.Function, idx int) int {
	var rets []*ssa.Return
	for _, b := range f.Blocks {
		for _, ins := range b.Instrs {
			if ret, ok := ins.(*ssa.Return); ok && isSuccessReturn(ret) {
				rets = append(rets, ret)
			}
		}
	}
	sort.SliceStable(rets, func(i, j int) bool { return rets[i].Pos() < rets[j].Pos() })
	for k, ret := range rets {
		v := ret.Results[idx]
		bits := e.at(v, ret.Block())
		o := Obligation{Rule: rule, Key: fmt.Sprintf("%s:return#%d", shortFn(f), k+1), Fn: shortFn(f), Pos: c.W.Pos(ret.Pos())}
		_, isConst := v.(*ssa.Const)
		o.Nontrivial = !isConst
		if bits == 0 {
			o.Verdict = Discharged
			if e.bits(v) != 0 {
				o.Reason = "result " + bitsStr(e.bits(v)) + " but math.IsInf/IsNaN tests with leaving true edges dominate the return"
			} else if isConst {
				o.Reason = "constant result"
			} else {
				o.Reason = "result is built from finite values by finiteness-preserving operations"
			}
		} else {
			o.Verdict = Finding
			o.Reason = "float result " + bitsStr(bits) + " and becomes a JSONata value unchecked: " + e.why[v]
		}
		r.Add(o)
	}
	return len(rets)
}

// runFINBoxing: sink S2 — a float64 boxed into an interface (and thereby into a value) inside
// the given functions. Boxing for formatting/error construction is not a sink.
func runFINBoxing(c *Ctx, e *finEngine, r *Result, rule string, fns []*ssa.Function) int {
	n := 0
	for _, f := range fns {
		if f.Synthetic != "" {
			continue
		}
		var mis []*ssa.MakeInterface
		for _, b := range f.Blocks {
			for _, ins := range b.Instrs {
				if mi, ok := ins.(*ssa.MakeInterface); ok && isFloat(mi.X.Type()) {
					if onlyFormatting(mi) {
						continue
					}
					mis = append(mis, mi)
				}
			}
		}
		sort.SliceStable(mis, func(i, j int) bool { return mis[i].Pos() < mis[j].Pos() })
		for k, mi := range mis {
			n++
			bits := e.at(mi.X, mi.Block())
			o := Obligation{Rule: rule, Key: fmt.Sprintf("%s:box-float#%d", shortFn(f), k+1), Fn: shortFn(f), Pos: c.W.Pos(mi.Pos())}
			_, isConst := mi.X.(*ssa.Const)
			o.Nontrivial = !isConst
			if bits == 0 {
				o.Verdict = Discharged
				if e.bits(mi.X) != 0 {
					o.Reason = "value " + bitsStr(e.bits(mi.X)) + " but IsInf/IsNaN tests with leaving true edges dominate the boxing"
				} else {
					o.Reason = "boxed float is finite by construction"
				}
			} else {
				o.Verdict = Finding
				o.Reason = "float " + bitsStr(bits) + " is boxed into a value unchecked: " + e.why[mi.X]
			}
			r.Add(o)
		}
	}
	return n
}

// onlyFormatting: the interface value is used only as an argument (directly or through a
// variadic slice) of fmt.*, errors.*, or a module function whose name starts with newE/panicf.
func onlyFormatting(mi *ssa.MakeInterface) bool {
	refs := mi.Referrers()
	if refs == nil || len(*refs) == 0 {
		return true
	}
	okCallee := func(f *ssa.Function) bool {
		if f == nil {
			return false
		}
		p := fnPkg(f)
		if p == nil {
			return false
		}
		if p.Path() == "fmt" || p.Path() == "errors" {
			return true
		}
		n := f.Name()
		return n == "panicf" || n == "newEvalError" || n == "newError" || n == "newErrorHint"
	}
	var okUse func(ins ssa.Instruction, depth int) bool
	okUse = func(ins ssa.Instruction, depth int) bool {
		if depth > 4 {
			return false
		}
		switch u := ins.(type) {
		case *ssa.DebugRef:
			return true
		case ssa.CallInstruction:
			return okCallee(u.Common().StaticCallee())
		case *ssa.Store:
			// store into a variadic backing array element: follow the array
			if ia, ok := u.Addr.(*ssa.IndexAddr); ok {
				if al, ok := ia.X.(*ssa.Alloc); ok && al.Referrers() != nil {
					for _, ar := range *al.Referrers() {
						switch ar := ar.(type) {
						case *ssa.IndexAddr:
						case *ssa.Slice:
							if ar.Referrers() != nil {
								for _, sr := range *ar.Referrers() {
									if !okUse(sr, depth+1) {
										return false
									}
								}
							}
						default:
							return false
						}
					}
					return true
				}
			}
			return false
		}
		return false
	}
	for _, u := range *refs {
		if !okUse(u, 0) {
			return false
		}
	}
	return true
}
