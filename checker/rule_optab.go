package main

import (
	"fmt"
	"go/constant"
	"go/token"
	"go/types"
	"sort"
	"strings"

	"golang.org/x/tools/go/ssa"
)

// ---------------------------------------------------------------------------------------
// OPTAB — the operator table of the evaluator (C03).
//
// evalNumericOperator, evalComparisonOperator and evalBooleanOperator each switch on the node's
// operator constant and compute one value per case. The rule reads, for every case, the SSA
// expression that reaches the result and compares it with the meaning of the operator:
// + - * / as the float operation on (left, right) in that order, % as math.Mod(left, right),
// = != < <= > >= in through eq/lt/lte/in with the documented negations, and/or as the
// short-circuit of jlib.Boolean(left) and jlib.Boolean(right). Anything else — a swapped
// operand, another function, an extra fast path in one case, arithmetic outside the cases —
// is a finding naming the operator.

// opRole: "L" / "R" when v is the evaluated left / right operand of the node (first result of
// a call that is given node.LHS / node.RHS), "" otherwise.
func opRole(v ssa.Value, node ssa.Value) string {
	ex, ok := v.(*ssa.Extract)
	if !ok || ex.Index != 0 {
		return ""
	}
	call, ok := ex.Tuple.(*ssa.Call)
	if !ok || len(call.Call.Args) == 0 {
		return ""
	}
	for _, a := range call.Call.Args {
		if fieldLoadOf(a, node, "LHS") {
			return "L"
		}
		if fieldLoadOf(a, node, "RHS") {
			return "R"
		}
	}
	return ""
}

// opParamRoles: when the operator's computation lives in a helper, the roles of the helper's
// parameters (taken from the arguments at its call site in the evaluator function).
var opParamRoles map[ssa.Value]string

func opRoleOf(v ssa.Value, node ssa.Value) string {
	if r, ok := opParamRoles[v]; ok && r != "tag" {
		return r
	}
	return opRole(v, node)
}

func opExpr(v ssa.Value, node ssa.Value, depth int) string {
	if depth > 6 {
		return "?"
	}
	if r := opRoleOf(v, node); r != "" {
		return r
	}
	switch x := v.(type) {
	case *ssa.Const:
		if x.Value == nil {
			return "nil"
		}
		return x.Value.ExactString()
	case *ssa.BinOp:
		return "(" + opExpr(x.X, node, depth+1) + " " + x.Op.String() + " " + opExpr(x.Y, node, depth+1) + ")"
	case *ssa.UnOp:
		if x.Op == token.NOT {
			return "!" + opExpr(x.X, node, depth+1)
		}
		return x.Op.String() + opExpr(x.X, node, depth+1)
	case *ssa.Call:
		name := staticName(x)
		if callee := x.Call.StaticCallee(); callee != nil && callee.Pkg != nil && callee.Signature.Recv() == nil {
			name = callee.Pkg.Pkg.Name() + "." + callee.Name()
		}
		var args []string
		for _, a := range x.Call.Args {
			args = append(args, opExpr(a, node, depth+1))
		}
		return name + "(" + strings.Join(args, ", ") + ")"
	case *ssa.Phi:
		// short-circuit && / || : phi [const from the block that tested c, value]
		if len(x.Edges) == 2 {
			for i := 0; i < 2; i++ {
				k, isK := x.Edges[i].(*ssa.Const)
				if !isK || k.Value == nil || k.Value.Kind() != constant.Bool {
					continue
				}
				pred := x.Block().Preds[i]
				iff, ok := pred.Instrs[len(pred.Instrs)-1].(*ssa.If)
				if !ok {
					continue
				}
				other := opExpr(x.Edges[1-i], node, depth+1)
				cond := opExpr(iff.Cond, node, depth+1)
				kv := constant.BoolVal(k.Value)
				// the constant arrives on the edge pred -> phi block
				onTrue := pred.Succs[0] == x.Block()
				switch {
				case !kv && !onTrue:
					return "(" + cond + " && " + other + ")"
				case kv && onTrue:
					return "(" + cond + " || " + other + ")"
				}
			}
		}
		var es []string
		for _, e := range x.Edges {
			es = append(es, opExpr(e, node, depth+1))
		}
		return "phi(" + strings.Join(es, ", ") + ")"
	}
	return "?" + v.Name()
}

type optabSpec struct {
	fn    string
	enum  string // named type of the operator constants (in jparse)
	want  map[string][]string
	arith bool // no arithmetic outside the cases
}

var optabSpecs = []optabSpec{
	{fn: "jsonata.evalNumericOperator", enum: "NumericOperator", arith: true, want: map[string][]string{
		"NumericAdd":      {"(L + R)"},
		"NumericSubtract": {"(L - R)"},
		"NumericMultiply": {"(L * R)"},
		"NumericDivide":   {"(L / R)"},
		"NumericModulo":   {"math.Mod(L, R)"},
	}},
	{fn: "jsonata.evalComparisonOperator", enum: "ComparisonOperator", want: map[string][]string{
		"ComparisonIn":       {"jsonata.in(L, R)"},
		"ComparisonEqual":    {"jsonata.eq(L, R)"},
		"ComparisonNotEqual": {"!jsonata.eq(L, R)"},
		// lte(a, b) may be spelled out as what it is defined to be: lt(a, b) || eq(a, b)
		"ComparisonLess":         {"jsonata.lt(L, R)", "!jsonata.lte(R, L)", "!(jsonata.lt(R, L) || jsonata.eq(R, L))"},
		"ComparisonLessEqual":    {"jsonata.lte(L, R)", "!jsonata.lt(R, L)", "(jsonata.lt(L, R) || jsonata.eq(L, R))"},
		"ComparisonGreater":      {"!jsonata.lte(L, R)", "jsonata.lt(R, L)", "!(jsonata.lt(L, R) || jsonata.eq(L, R))"},
		"ComparisonGreaterEqual": {"!jsonata.lt(L, R)", "jsonata.lte(R, L)", "(jsonata.lt(R, L) || jsonata.eq(R, L))"},
	}},
	{fn: "jsonata.evalBooleanOperator", enum: "BooleanOperator", want: map[string][]string{
		"BooleanAnd": {"(jlib.Boolean(L) && jlib.Boolean(R))"},
		"BooleanOr":  {"(jlib.Boolean(L) || jlib.Boolean(R))"},
	}},
}

// caseConstsOf: the operator constants under which block b runs, when b is a case body of a
// switch on tag (every predecessor ends in `if tag == K` with b as the true successor).
func caseConstsOf(b *ssa.BasicBlock, isTag func(ssa.Value) bool) ([]int64, bool) {
	var ks []int64
	if len(b.Preds) == 0 {
		return nil, false
	}
	for _, p := range b.Preds {
		iff, ok := p.Instrs[len(p.Instrs)-1].(*ssa.If)
		if !ok || p.Succs[0] != b || p.Succs[1] == b {
			return nil, false
		}
		bo, ok := iff.Cond.(*ssa.BinOp)
		if !ok || bo.Op != token.EQL || !isTag(bo.X) {
			return nil, false
		}
		k, ok := bo.Y.(*ssa.Const)
		if !ok || k.Value == nil || k.Value.Kind() != constant.Int {
			return nil, false
		}
		kv, _ := constant.Int64Val(k.Value)
		ks = append(ks, kv)
	}
	return ks, true
}

func runOPTAB(c *Ctx, r *Result, rule string) int {
	n := 0
	jp := c.W.Lib["jparse"]
	for _, sp := range optabSpecs {
		f := c.W.Fn(sp.fn)
		if f == nil {
			r.LoseAnchor("OPTAB: %s not found", sp.fn)
			continue
		}
		// operator constants by value
		names := map[int64]string{}
		for _, nm := range jp.Types.Scope().Names() {
			if k, ok := jp.Types.Scope().Lookup(nm).(*types.Const); ok {
				if nt, ok := k.Type().(*types.Named); ok && nt.Obj().Name() == sp.enum {
					v, _ := constant.Int64Val(k.Val())
					names[v] = nm
				}
			}
		}
		if len(names) == 0 || len(f.Params) == 0 {
			r.LoseAnchor("OPTAB: no constants of type jparse.%s", sp.enum)
			continue
		}
		node := f.Params[0]
		isTag := func(v ssa.Value) bool { return fieldLoadOf(v, node, "Type") }
		// the phi that collects one value per case
		var best *ssa.Phi
		bestN := 0
		for _, b := range f.Blocks {
			for _, ins := range b.Instrs {
				phi, ok := ins.(*ssa.Phi)
				if !ok {
					break
				}
				distinct := map[int64]bool{}
				for i := range phi.Edges {
					if ks, ok := caseConstsOf(caseEntry(b.Preds[i], isTag), isTag); ok {
						for _, k := range ks {
							distinct[k] = true
						}
					}
				}
				// a collector merges the values of at least two operators (the phi of a
				// short-circuit inside one case does not)
				if cnt := len(distinct); cnt >= 2 && cnt > bestN {
					best, bestN = phi, cnt
				}
			}
		}
		opParamRoles = nil
		if best == nil {
			// the switch may have been moved into a helper that is handed the operator and
			// the operands: follow the static calls of the evaluator function
			for _, ins := range instrsIn(f) {
				call, ok := ins.(*ssa.Call)
				if !ok || ins.Parent() != f {
					continue
				}
				callee := call.Call.StaticCallee()
				if callee == nil || !c.G.InSc[callee] || len(callee.Blocks) == 0 {
					continue
				}
				roles := map[ssa.Value]string{}
				hasTag := false
				for i, a := range call.Call.Args {
					if i >= len(callee.Params) {
						break
					}
					switch {
					case isTag(a):
						roles[callee.Params[i]] = "tag"
						hasTag = true
					case opRole(a, node) != "":
						roles[callee.Params[i]] = opRole(a, node)
					}
				}
				if !hasTag {
					continue
				}
				calleeTag := func(v ssa.Value) bool { return roles[v] == "tag" }
				for _, b := range callee.Blocks {
					for _, i2 := range b.Instrs {
						phi, ok := i2.(*ssa.Phi)
						if !ok {
							break
						}
						distinct := map[int64]bool{}
						for i := range phi.Edges {
							if ks, ok := caseConstsOf(caseEntry(b.Preds[i], calleeTag), calleeTag); ok {
								for _, k := range ks {
									distinct[k] = true
								}
							}
						}
						if cnt := len(distinct); cnt >= 2 && cnt > bestN {
							best, bestN = phi, cnt
							opParamRoles = roles
							isTag = calleeTag
							f = callee
						}
					}
				}
			}
		}
		type caseVal struct {
			v   ssa.Value
			blk *ssa.BasicBlock
		}
		var cvs []caseVal
		if best != nil {
			for i, e := range best.Edges {
				cvs = append(cvs, caseVal{e, best.Block().Preds[i]})
			}
		} else {
			// each case returns its value directly (a helper whose switch cases are returns)
			try := func(g *ssa.Function, tagOf func(ssa.Value) bool) []caseVal {
				var out []caseVal
				n := 0
				for _, b := range g.Blocks {
					ret, ok := b.Instrs[len(b.Instrs)-1].(*ssa.Return)
					if !ok || len(ret.Results) == 0 {
						continue
					}
					if _, ok := caseConstsOf(caseEntry(b, tagOf), tagOf); ok {
						n++
						out = append(out, caseVal{unboxedResult(ret.Results[0]), b})
					}
				}
				if n >= 2 {
					return out
				}
				return nil
			}
			cvs = try(f, isTag)
			if cvs == nil {
				for _, ins := range instrsIn(f) {
					call, ok := ins.(*ssa.Call)
					if !ok || ins.Parent() != f {
						continue
					}
					callee := call.Call.StaticCallee()
					if callee == nil || !c.G.InSc[callee] || len(callee.Blocks) == 0 {
						continue
					}
					roles := map[ssa.Value]string{}
					hasTag := false
					for i, a := range call.Call.Args {
						if i >= len(callee.Params) {
							break
						}
						switch {
						case isTag(a):
							roles[callee.Params[i]] = "tag"
							hasTag = true
						case opRole(a, node) != "":
							roles[callee.Params[i]] = opRole(a, node)
						}
					}
					if !hasTag {
						continue
					}
					calleeTag := func(v ssa.Value) bool { return roles[v] == "tag" }
					if got := try(callee, calleeTag); got != nil {
						cvs, opParamRoles, isTag, f = got, roles, calleeTag, callee
						break
					}
				}
			}
		}
		if len(cvs) == 0 {
			r.LoseAnchor("OPTAB: %s has no switch on node.Type that yields one value per operator", sp.fn)
			continue
		}
		got := map[string][]string{}
		caseVals := map[ssa.Value]bool{}
		for _, cv := range cvs {
			e := cv.v
			entry := caseEntry(cv.blk, isTag)
			ks, ok := caseConstsOf(entry, isTag)
			if !ok {
				continue
			}
			ex := opExpr(e, node, 0)
			markOperands(e, caseVals, 0)
			for _, k := range ks {
				nm := names[k]
				if nm == "" {
					nm = fmt.Sprintf("%s(%d)", sp.enum, k)
				}
				got[nm] = append(got[nm], ex)
			}
		}
		var ops []string
		for nm := range sp.want {
			ops = append(ops, nm)
		}
		sort.Strings(ops)
		for _, nm := range ops {
			n++
			o := Obligation{Rule: rule, Key: "op:" + nm, Fn: shortFn(f), Pos: c.W.Pos(f.Pos()), Nontrivial: true}
			exs, has := got[nm]
			ex := strings.Join(exs, " | ")
			okv := len(exs) == 1
			if okv {
				okv = false
				for _, w := range sp.want[nm] {
					if exs[0] == w {
						okv = true
					}
				}
			}
			switch {
			case !has:
				o.Verdict, o.Reason = Finding, "no case of the switch in "+shortFn(f)+" computes a value for "+nm
			case okv:
				o.Verdict, o.Reason = Discharged, nm+" computes "+ex+" (L, R = the evaluated left and right operands)"
			case len(exs) > 1:
				o.Verdict, o.Reason = Finding, nm+" computes different things on different paths ("+ex+"), expected "+strings.Join(sp.want[nm], " or ")+" on every path"
			default:
				o.Verdict, o.Reason = Finding, nm+" computes "+ex+", expected "+strings.Join(sp.want[nm], " or ")
			}
			r.Add(o)
		}
		for nm, exs := range got {
			ex := strings.Join(exs, " | ")
			if _, ok := sp.want[nm]; !ok {
				n++
				r.Add(Obligation{Rule: rule, Key: "op:" + nm, Fn: shortFn(f), Pos: c.W.Pos(f.Pos()), Nontrivial: true, Verdict: Finding,
					Reason: "operator " + nm + " computes " + ex + " but has no entry in the reviewed operator table"})
			}
		}
		if sp.arith {
			n++
			o := Obligation{Rule: rule, Key: "no-other-arithmetic:" + shortFn(f), Fn: shortFn(f), Pos: c.W.Pos(f.Pos()), Nontrivial: true}
			extra := ""
			for _, ins := range instrsIn(f) {
				if ins.Parent() != f {
					continue
				}
				bo, ok := ins.(*ssa.BinOp)
				if !ok || caseVals[bo] {
					continue
				}
				switch bo.Op {
				case token.ADD, token.SUB, token.MUL, token.QUO, token.REM, token.SHL, token.SHR, token.AND, token.OR, token.XOR:
					if isStringType(bo.X.Type()) {
						continue
					}
					extra = c.W.Pos(bo.Pos()) + ": " + bo.String()
				}
			}
			if extra == "" {
				o.Verdict, o.Reason = Discharged, "the only arithmetic in "+shortFn(f)+" is the one operation of each case"
			} else {
				o.Verdict, o.Reason = Finding, "arithmetic outside the operator table ("+extra+"): a fast path or adjustment that the table does not describe"
			}
			r.Add(o)
		}
	}
	// & concatenates the string forms of its operands on every success path
	if f := c.W.Fn("jsonata.evalStringConcatenation"); f == nil {
		r.LoseAnchor("OPTAB: jsonata.evalStringConcatenation not found")
	} else {
		n++
		o := Obligation{Rule: rule, Key: "op:StringConcatenation", Fn: shortFn(f), Pos: c.W.Pos(f.Pos()), Nontrivial: true}
		node := f.Params[0]
		bad, succ := "", 0
		var conv *ssa.Function
		for _, b := range f.Blocks {
			ret, ok := b.Instrs[len(b.Instrs)-1].(*ssa.Return)
			if !ok || len(ret.Results) != 2 || !isSuccessReturn(ret) {
				continue
			}
			succ++
			call, ok := ret.Results[0].(*ssa.Call)
			if !ok || staticName(call) != "reflect.ValueOf" {
				bad = "a success return that is not reflect.ValueOf(string(left) + string(right)): " + opExpr(ret.Results[0], node, 0)
				break
			}
			mi, _ := call.Call.Args[0].(*ssa.MakeInterface)
			var sum *ssa.BinOp
			if mi != nil {
				sum, _ = mi.X.(*ssa.BinOp)
			}
			if sum == nil || sum.Op != token.ADD || !isStringType(sum.Type()) {
				bad = "a success return that does not box the concatenation of two strings"
				break
			}
			sides := [2]string{}
			for i, side := range []ssa.Value{sum.X, sum.Y} {
				ex, ok := side.(*ssa.Extract)
				if !ok || ex.Index != 0 {
					break
				}
				cl, ok := ex.Tuple.(*ssa.Call)
				if !ok || len(cl.Call.Args) != 1 {
					break
				}
				callee := cl.Call.StaticCallee()
				if callee == nil {
					if mc, isMC := cl.Call.Value.(*ssa.MakeClosure); isMC {
						callee, _ = mc.Fn.(*ssa.Function)
					}
				}
				if callee == nil || (conv != nil && conv != callee) {
					break
				}
				conv = callee
				sides[i] = opRole(cl.Call.Args[0], node)
			}
			if sides != [2]string{"L", "R"} {
				bad = "the concatenation is not string(left operand) + string(right operand) through one conversion function"
				break
			}
		}
		if bad == "" && conv != nil {
			// the conversion: "" or jlib.String(v.Interface())
			for _, b := range conv.Blocks {
				ret, ok := b.Instrs[len(b.Instrs)-1].(*ssa.Return)
				if !ok {
					continue
				}
				switch x := ret.Results[0].(type) {
				case *ssa.Const:
					if x.Value == nil || constantString(x) != "" {
						bad = "the conversion returns a constant other than the empty string"
					}
				case *ssa.Extract:
					cl, ok := x.Tuple.(*ssa.Call)
					if !ok || cl.Call.StaticCallee() == nil || shortFn(cl.Call.StaticCallee()) != "jlib.String" {
						bad = "the conversion does not go through jlib.String"
					}
				default:
					bad = "the conversion returns something other than \"\" or jlib.String(v)"
				}
			}
		}
		switch {
		case succ == 0:
			o.Verdict, o.Reason = Finding, "no success return found"
		case bad != "":
			o.Verdict, o.Reason = Finding, "& : "+bad
		default:
			o.Verdict, o.Reason = Discharged, fmt.Sprintf("each of the %d success returns boxes conv(L) + conv(R), conv being \"\" for a missing value and jlib.String otherwise", succ)
		}
		r.Add(o)
	}
	// lt compares left with right, strictly
	if lt := c.W.Fn("jsonata.lt"); lt == nil {
		r.LoseAnchor("OPTAB: jsonata.lt not found")
	} else {
		cmp := 0
		bad := ""
		for _, ins := range instrsIn(lt) {
			bo, ok := ins.(*ssa.BinOp)
			if !ok {
				continue
			}
			switch bo.Op {
			case token.LSS, token.LEQ, token.GTR, token.GEQ:
				if !(isStringType(bo.X.Type()) || isFloatType(bo.X.Type())) {
					continue
				}
				cmp++
				if bo.Op != token.LSS || !derivesFromParam(bo.X, lt.Params[0], 0) || !derivesFromParam(bo.Y, lt.Params[1], 0) {
					bad = bo.String()
				}
			}
		}
		n++
		o := Obligation{Rule: rule, Key: "lt:strict-left-right", Fn: "jsonata.lt", Pos: c.W.Pos(lt.Pos()), Nontrivial: true}
		if bad == "" && cmp >= 2 {
			o.Verdict, o.Reason = Discharged, fmt.Sprintf("lt's %d comparisons are `<` with the left operand's value on the left", cmp)
		} else {
			o.Verdict, o.Reason = Finding, "lt does not compare (value of lhs) < (value of rhs): "+bad
		}
		r.Add(o)
	}
	return n
}

// caseEntry: walks back from the block an edge value arrives from to the block that is entered
// from the switch test (a case body may consist of several blocks, e.g. a short-circuit).
func caseEntry(b *ssa.BasicBlock, isTag func(ssa.Value) bool) *ssa.BasicBlock {
	seen := map[*ssa.BasicBlock]bool{}
	for b != nil && !seen[b] {
		seen[b] = true
		if _, ok := caseConstsOf(b, isTag); ok {
			return b
		}
		if len(b.Preds) == 0 {
			return b
		}
		// follow the immediate dominator inside the case
		b = b.Idom()
	}
	return b
}

func markOperands(v ssa.Value, m map[ssa.Value]bool, depth int) {
	if depth > 6 || m[v] {
		return
	}
	m[v] = true
	if ins, ok := v.(ssa.Instruction); ok {
		for _, op := range ins.Operands(nil) {
			if *op != nil {
				markOperands(*op, m, depth+1)
			}
		}
	}
}

func isFloatType(t types.Type) bool {
	b, ok := t.Underlying().(*types.Basic)
	return ok && b.Info()&types.IsFloat != 0
}

// derivesFromParam: v is the first result of a call on p (AsNumber(p), AsString(p)).
func derivesFromParam(v ssa.Value, p *ssa.Parameter, depth int) bool {
	if depth > 3 {
		return false
	}
	if v == ssa.Value(p) {
		return true
	}
	switch x := v.(type) {
	case *ssa.Extract:
		return derivesFromParam(x.Tuple, p, depth+1)
	case *ssa.Call:
		for _, a := range x.Call.Args {
			if derivesFromParam(a, p, depth+1) {
				return true
			}
		}
	}
	return false
}

// unboxedResult: reflect.ValueOf(x) -> x (a case that returns its boxed value directly).
func unboxedResult(v ssa.Value) ssa.Value {
	if call, ok := v.(*ssa.Call); ok && staticName(call) == "reflect.ValueOf" {
		if mi, ok := call.Call.Args[0].(*ssa.MakeInterface); ok {
			return mi.X
		}
	}
	return v
}
