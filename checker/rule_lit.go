package main

import (
	"fmt"
	"go/token"
	"go/types"

	"golang.org/x/tools/go/ssa"
)

// ---------------------------------------------------------------------------------------
// LIT — literal values flow unchanged from the token to the result (C11).
//
//   eval-identity   the function eval dispatches a *NumberNode/*StringNode/*BooleanNode to
//                   returns, on every path, reflect.ValueOf(node.Value) with a nil error: no
//                   cache, table or arithmetic between the node and the result;
//   parse-number    the Value of the NumberNode built by the number nud is the first result of
//                   strconv.ParseFloat(<token text>, 64) — the nearest double — and is only
//                   used after the error was tested nil;
//   fold-negation   the NumberNode that NegationNode.optimize folds a negated literal into holds
//                   the arithmetic negation of the operand's Value (so -0 keeps its sign);
//   parse-string    the Value of the StringNode built by the string nud is the first result of
//                   unescape(<token text>), used only after its ok result was tested.

func fieldLoadOf(v ssa.Value, base ssa.Value, field string) bool {
	switch x := v.(type) {
	case *ssa.UnOp:
		if x.Op != token.MUL {
			return false
		}
		fa, ok := x.X.(*ssa.FieldAddr)
		if !ok {
			return false
		}
		if base != nil && fa.X != base {
			// a spilled struct parameter: FieldAddr on the Alloc the parameter was stored to
			al, isAl := fa.X.(*ssa.Alloc)
			if !isAl || !spillOf(al, base) {
				return false
			}
		}
		return fieldName(fa.X.Type(), fa.Field) == field
	case *ssa.Field:
		if base != nil && x.X != base {
			if u, ok := x.X.(*ssa.UnOp); !ok || u.Op != token.MUL {
				return false
			} else if al, isAl := u.X.(*ssa.Alloc); !isAl || !spillOf(al, base) {
				return false
			}
		}
		return fieldName(x.X.Type(), x.Field) == field
	}
	return false
}

func spillOf(al *ssa.Alloc, v ssa.Value) bool {
	if !spillOnly(al) {
		return false
	}
	for _, r := range *al.Referrers() {
		if st, ok := r.(*ssa.Store); ok && st.Addr == ssa.Value(al) {
			return st.Val == v
		}
	}
	return false
}

func fieldName(t types.Type, i int) string {
	if p, ok := t.Underlying().(*types.Pointer); ok {
		t = p.Elem()
	}
	st, ok := t.Underlying().(*types.Struct)
	if !ok || i >= st.NumFields() {
		return ""
	}
	return st.Field(i).Name()
}

func namedElem(t types.Type) string {
	if p, ok := t.Underlying().(*types.Pointer); ok {
		if n, ok := p.Elem().(*types.Named); ok {
			return n.Obj().Name()
		}
	}
	return ""
}

func runLIT(c *Ctx, r *Result, rule string) int {
	n := 0
	evalFn := evalDispatchFn(c)
	if evalFn == nil {
		r.LoseAnchor("LIT: jsonata.eval not found")
		return 0
	}
	// eval-identity
	for _, lit := range []string{"NumberNode", "StringNode", "BooleanNode"} {
		var callee *ssa.Function
		for _, ins := range instrsIn(evalFn) {
			call, ok := ins.(*ssa.Call)
			if !ok || len(call.Call.Args) == 0 {
				continue
			}
			if f := call.Call.StaticCallee(); f != nil && namedElem(call.Call.Args[0].Type()) == lit && c.Lib[fnPkg(f)] {
				callee = f
			}
		}
		o := Obligation{Rule: rule, Key: "eval-identity:" + lit, Fn: "jsonata.eval", Nontrivial: true}
		if callee == nil {
			r.LoseAnchor("LIT: eval does not hand a *jparse.%s to a function of its own", lit)
			continue
		}
		n++
		o.Fn, o.Pos = shortFn(callee), c.W.Pos(callee.Pos())
		bad := ""
		rets := 0
		for _, b := range callee.Blocks {
			ret, ok := b.Instrs[len(b.Instrs)-1].(*ssa.Return)
			if !ok {
				continue
			}
			rets++
			if len(ret.Results) != 2 {
				bad = "unexpected result count"
				break
			}
			if k, ok := ret.Results[1].(*ssa.Const); !ok || !k.IsNil() {
				bad = "a return with a possibly non-nil error"
				break
			}
			call, ok := ret.Results[0].(*ssa.Call)
			if !ok || staticName(call) != "reflect.ValueOf" {
				bad = "a return whose value is not reflect.ValueOf(...) of the node's Value (" + ret.Results[0].String() + ")"
				break
			}
			mi, ok := call.Call.Args[0].(*ssa.MakeInterface)
			if !ok || !fieldLoadOf(mi.X, callee.Params[0], "Value") {
				bad = "a return that boxes something other than the field Value of the node it was given"
				break
			}
		}
		if bad == "" && rets > 0 {
			o.Verdict, o.Reason = Discharged, fmt.Sprintf("%s returns reflect.ValueOf(node.Value), nil on each of its %d return paths", shortFn(callee), rets)
		} else {
			o.Verdict, o.Reason = Finding, shortFn(callee)+" has "+bad+": the value of a literal is no longer the value stored in its node"
		}
		r.Add(o)
	}
	// parse-number, parse-string, fold-negation: the Value stored into the freshly built node
	type spec struct {
		key, fn, node string
		check         func(f *ssa.Function, st *ssa.Store) string
	}
	specs := []spec{
		{"parse-number", "jparse.parseNumber", "NumberNode", func(f *ssa.Function, st *ssa.Store) string {
			ex, ok := st.Val.(*ssa.Extract)
			if !ok || ex.Index != 0 {
				return "the stored value is not the first result of strconv.ParseFloat"
			}
			call, ok := ex.Tuple.(*ssa.Call)
			if !ok || staticName(call) != "strconv.ParseFloat" {
				return "the stored value is not the first result of strconv.ParseFloat"
			}
			if k, ok := intConstOf(call.Call.Args[1]); !ok || k != 64 {
				return "strconv.ParseFloat is not asked for 64 bits: the literal is not the nearest double"
			}
			if len(f.Params) < 2 || !fieldLoadOf(call.Call.Args[0], f.Params[1], "Value") {
				return "strconv.ParseFloat is not applied to the text of the token"
			}
			if !errNilDominates(call, st.Block()) {
				return "the node is built without testing ParseFloat's error (a number outside the double range must be a compile error)"
			}
			return ""
		}},
		{"parse-string", "jparse.parseString", "StringNode", func(f *ssa.Function, st *ssa.Store) string {
			ex, ok := st.Val.(*ssa.Extract)
			if !ok || ex.Index != 0 {
				return "the stored value is not the first result of unescape"
			}
			call, ok := ex.Tuple.(*ssa.Call)
			if !ok || call.Call.StaticCallee() == nil || shortFn(call.Call.StaticCallee()) != "jparse.unescape" {
				return "the stored value is not the first result of jparse.unescape"
			}
			if len(f.Params) < 2 || !fieldLoadOf(call.Call.Args[0], f.Params[1], "Value") {
				return "unescape is not applied to the text of the token"
			}
			var okv ssa.Value
			for _, rf := range *call.Referrers() {
				if e, isEx := rf.(*ssa.Extract); isEx && e.Index == 1 {
					okv = e
				}
			}
			if okv == nil || !domGuard(st.Block(), func(cond ssa.Value) (int, bool) { return boolEdge(cond, okv, true) }) {
				return "the node is built without testing unescape's ok result (a malformed escape must be a compile error)"
			}
			return ""
		}},
		{"fold-negation", "jparse.(*NegationNode).optimize", "NumberNode", func(f *ssa.Function, st *ssa.Store) string {
			neg, ok := st.Val.(*ssa.UnOp)
			if !ok || neg.Op != token.SUB {
				return "the folded value is not the arithmetic negation of the operand (e.g. 0 - x loses the sign of zero)"
			}
			if !fieldLoadOf(neg.X, nil, "Value") {
				return "the negated value is not the Value of the operand node"
			}
			ld := neg.X.(*ssa.UnOp)
			fa := ld.X.(*ssa.FieldAddr)
			if namedElem(fa.X.Type()) != "NumberNode" {
				return "the negated value does not come from a NumberNode"
			}
			return ""
		}},
	}
	for _, sp := range specs {
		f := c.W.Fn(sp.fn)
		if f == nil {
			r.LoseAnchor("LIT: %s not found", sp.fn)
			continue
		}
		var stores []*ssa.Store
		for _, ins := range instrsIn(f) {
			st, ok := ins.(*ssa.Store)
			if !ok {
				continue
			}
			fa, ok := st.Addr.(*ssa.FieldAddr)
			if !ok || namedElem(fa.X.Type()) != sp.node || fieldName(fa.X.Type(), fa.Field) != "Value" {
				continue
			}
			stores = append(stores, st)
		}
		if len(stores) == 0 {
			r.LoseAnchor("LIT: %s builds no %s", sp.fn, sp.node)
			continue
		}
		for i, st := range stores {
			n++
			o := Obligation{Rule: rule, Key: fmt.Sprintf("%s:%s#%d", sp.key, shortFn(f), i+1), Fn: shortFn(f), Pos: c.W.Pos(st.Pos()), Nontrivial: true}
			if why := sp.check(f, st); why != "" {
				o.Verdict, o.Reason = Finding, why
			} else {
				o.Verdict, o.Reason = Discharged, map[string]string{
					"parse-number":  "NumberNode.Value is the first result of strconv.ParseFloat(token text, 64), stored only after the error was tested nil",
					"parse-string":  "StringNode.Value is the first result of unescape(token text), stored only after its ok result was tested",
					"fold-negation": "the folded NumberNode holds -(operand.Value)",
				}[sp.key]
			}
			r.Add(o)
		}
		// every NumberNode/StringNode these functions return is one of those
	}
	return n
}
