package main

import (
	"fmt"
	"go/types"

	"golang.org/x/tools/go/ssa"
)

// ---------------------------------------------------------------------------------------
// ACYC — Eval does not make a value contain itself (C09).
//
// The termination arguments of the recursive walkers (descendants, flatten, $string/marshal,
// $spread, ...) descend the depth of the value and assume it is finite: decoded JSON is a tree.
// A value becomes cyclic only when something is stored into a container that already exists and
// is reachable from the thing stored. Built-ins assemble their results in containers they have
// just allocated (W shows every native store under Eval goes to memory of the evaluation, and
// the containers are not handed out before they are complete). What remains are the stores
// made THROUGH REFLECTION into data objects (reflect.Value.Set / SetMapIndex): each must go into
// a container allocated by the same function activation, or store a scalar or the zero Value
// (a deletion).

func allocatedHere(v ssa.Value, f *ssa.Function, depth int) bool {
	if depth > 8 {
		return false
	}
	switch x := v.(type) {
	case *ssa.MakeMap, *ssa.MakeSlice, *ssa.Alloc:
		return true
	case *ssa.Slice:
		return allocatedHere(x.X, f, depth+1)
	case *ssa.Phi:
		for _, e := range x.Edges {
			if e != ssa.Value(x) && !allocatedHere(e, f, depth+1) {
				return false
			}
		}
		return true
	case *ssa.Call:
		if bi, ok := x.Call.Value.(*ssa.Builtin); ok && bi.Name() == "append" {
			return allocatedHere(x.Call.Args[0], f, depth+1) || isNilConst(x.Call.Args[0])
		}
		switch staticName(x) {
		case "reflect.MakeSlice", "reflect.MakeMap", "reflect.MakeMapWithSize", "reflect.New", "reflect.Append", "reflect.AppendSlice":
			if n := staticName(x); n == "reflect.Append" || n == "reflect.AppendSlice" {
				return allocatedHere(x.Call.Args[0], f, depth+1)
			}
			return true
		case "reflect.Value.Index", "reflect.Value.Elem", "reflect.Value.Slice":
			return allocatedHere(x.Call.Args[0], f, depth+1)
		}
	case *ssa.UnOp:
		// load of a local variable cell whose stores are all allocated here
		if al, ok := x.X.(*ssa.Alloc); ok {
			if stores, ok := cellStores(al); ok && len(stores) > 0 {
				for _, st := range stores {
					if !allocatedHere(st.Val, f, depth+1) && !isNilConst(st.Val) {
						return false
					}
				}
				return true
			}
		}
	case *ssa.IndexAddr:
		return allocatedHere(x.X, f, depth+1)
	}
	return false
}

func isNilConst(v ssa.Value) bool {
	k, ok := v.(*ssa.Const)
	return ok && k.IsNil()
}

func scalarOrZero(v ssa.Value) bool {
	if k, ok := v.(*ssa.Const); ok {
		_ = k
		return true
	}
	switch x := v.(type) {
	case *ssa.MakeInterface:
		if b, ok := x.X.Type().Underlying().(*types.Basic); ok && b.Kind() != types.UnsafePointer {
			return true
		}
	case *ssa.Call:
		if staticName(x) == "reflect.ValueOf" {
			return scalarOrZero(x.Call.Args[0])
		}
	case *ssa.UnOp:
		// load of a package variable that holds the zero reflect.Value (undefined)
		if g, ok := x.X.(*ssa.Global); ok && isReflectValue(g.Type().(*types.Pointer).Elem()) && g.Name() == "undefined" {
			return true
		}
	}
	if b, ok := v.Type().Underlying().(*types.Basic); ok && b.Kind() != types.UnsafePointer {
		return true
	}
	return false
}

func dynElem(t types.Type) bool {
	switch u := t.Underlying().(type) {
	case *types.Interface:
		return true
	case *types.Struct:
		return isReflectValue(t)
	case *types.Map, *types.Slice, *types.Pointer:
		_ = u
		return true
	}
	return false
}

func runACYC(c *Ctx, r *Result, rule string, fns []*ssa.Function, reach *Reach) int {
	n := 0
	for _, f := range fns {
		ord := map[string]int{}
		for _, ins := range instrsIn(f) {
			var container, val ssa.Value
			kind := ""
			switch x := ins.(type) {
			case *ssa.Call:
				switch staticName(x) {
				case "reflect.Value.SetMapIndex":
					container, val, kind = x.Call.Args[0], x.Call.Args[2], "reflect.SetMapIndex"
				case "reflect.Value.Set":
					container, val, kind = x.Call.Args[0], x.Call.Args[1], "reflect.Set"
				}
			}
			if kind == "" {
				continue
			}
			n++
			k := shortFn(f) + ":" + kind
			ord[k]++
			o := Obligation{Rule: rule, Key: fmt.Sprintf("%s#%d", k, ord[k]), Fn: shortFn(f), Pos: c.W.Pos(ins.Pos()), Nontrivial: true}
			switch {
			case scalarOrZero(val):
				o.Verdict, o.Reason = Discharged, "stores a scalar, a constant or the zero Value: nothing that could contain the container"
				o.Nontrivial = false
			case allocatedHere(container, f, 0):
				o.Verdict, o.Reason = Discharged, "the container is allocated by this activation, after or independently of the value stored into it"
			default:
				o.Verdict, o.Reason = Finding, "stores a dynamically typed value into a container that already existed: if the value contains the container the result is cyclic, and the evaluator's recursive walkers do not terminate on a cyclic value"
				if reach != nil {
					o.Path = reach.Path(f)
				}
			}
			r.Add(o)
		}
	}
	return n
}
