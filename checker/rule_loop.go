package main

import (
	"fmt"
	"go/constant"
	"go/token"
	"go/types"
	"sort"
	"strings"

	"golang.org/x/tools/go/ssa"
)

// LOOP — loop variants and recursion (DESIGN.md §3 LOOP).
//
// Every natural loop of every function in the given set is put in a class with a structural
// termination argument, or reported. Classes:
//   R  range over a map/string/channel iterator created outside the loop
//   A  counted: the tested variable is φ(init, φ ± c) on every back edge, stepping towards a
//      loop-invariant bound (covers range-over-slice, for i := ..., and the decrement loops)
//   B  slice/string consumer: the tested/scanned variable is φ(init, suffix of φ) on every back
//      edge, each suffix starting at an offset provably >= 1
//   P  parser loop: every cycle calls parseExpression or consume (consume a token or panic), or
//      advance while the loop condition tests for EOF
//   L  lexer loop: every cycle calls nextRune and leaves the loop when it returns eof; acceptAll
//      with predicates that reject eof
//   M  multiplicative float scaling of a provably positive value
//   X  reviewed table: one entry per function and loop shape, with the ranking argument

type loopInfo struct {
	fn     *ssa.Function
	header *ssa.BasicBlock
	body   map[*ssa.BasicBlock]bool // includes header
	backs  []*ssa.BasicBlock        // sources of back edges
}

func findLoops(f *ssa.Function) []*loopInfo {
	byHeader := map[*ssa.BasicBlock]*loopInfo{}
	var order []*ssa.BasicBlock
	for _, b := range f.Blocks {
		for _, s := range b.Succs {
			if s.Dominates(b) { // back edge b -> s
				li := byHeader[s]
				if li == nil {
					li = &loopInfo{fn: f, header: s, body: map[*ssa.BasicBlock]bool{s: true}}
					byHeader[s] = li
					order = append(order, s)
				}
				li.backs = append(li.backs, b)
				// natural loop body: nodes that reach b without passing through s
				stack := []*ssa.BasicBlock{b}
				for len(stack) > 0 {
					x := stack[len(stack)-1]
					stack = stack[:len(stack)-1]
					if li.body[x] {
						continue
					}
					li.body[x] = true
					stack = append(stack, x.Preds...)
				}
			}
		}
	}
	sort.Slice(order, func(i, j int) bool { return order[i].Index < order[j].Index })
	var out []*loopInfo
	for _, h := range order {
		out = append(out, byHeader[h])
	}
	return out
}

// exits returns the If instructions inside the loop with one successor outside it.
func (l *loopInfo) exits() []*ssa.If {
	var out []*ssa.If
	for b := range l.body {
		if len(b.Instrs) == 0 {
			continue
		}
		if iff, ok := b.Instrs[len(b.Instrs)-1].(*ssa.If); ok {
			if !l.body[b.Succs[0]] || !l.body[b.Succs[1]] {
				out = append(out, iff)
			}
		}
	}
	sort.Slice(out, func(i, j int) bool { return out[i].Block().Index < out[j].Block().Index })
	return out
}

func (l *loopInfo) definedOutside(v ssa.Value) bool {
	switch v := v.(type) {
	case *ssa.Const, *ssa.Parameter, *ssa.Global, *ssa.FreeVar, *ssa.Function:
		return true
	case ssa.Instruction:
		return !l.body[v.Block()]
	}
	return false
}

// everyCycleHits: every cycle through the header passes through a block satisfying hit.
func (l *loopInfo) everyCycleHits(hit func(b *ssa.BasicBlock) bool) bool {
	if hit(l.header) {
		return true
	}
	seen := map[*ssa.BasicBlock]bool{}
	var dfs func(b *ssa.BasicBlock) bool // returns true if header reachable without a hit
	dfs = func(b *ssa.BasicBlock) bool {
		for _, s := range b.Succs {
			if !l.body[s] {
				continue
			}
			if s == l.header {
				return true
			}
			if seen[s] || hit(s) {
				continue
			}
			seen[s] = true
			if dfs(s) {
				return true
			}
		}
		return false
	}
	return !dfs(l.header)
}

func blockCalls(b *ssa.BasicBlock, pred func(ci ssa.CallInstruction) bool) bool {
	for _, ins := range b.Instrs {
		if ci, ok := ins.(ssa.CallInstruction); ok && pred(ci) {
			return true
		}
	}
	return false
}

// headerPhis returns the phis of the header with their outside / inside edges.
func (l *loopInfo) phiEdges(phi *ssa.Phi) (outside, inside []ssa.Value) {
	for i, e := range phi.Edges {
		if l.body[phi.Block().Preds[i]] {
			inside = append(inside, e)
		} else {
			outside = append(outside, e)
		}
	}
	return
}

// stepOf: v == phi ± c (c constant > 0), possibly through a chain φ+1 held in another value.
func stepOf(v ssa.Value, phi *ssa.Phi) (int64, bool) {
	bo, ok := v.(*ssa.BinOp)
	if !ok || (bo.Op != token.ADD && bo.Op != token.SUB) {
		return 0, false
	}
	if bo.X != ssa.Value(phi) {
		return 0, false
	}
	k, ok := constInt(bo.Y)
	if !ok || k == 0 {
		return 0, false
	}
	if bo.Op == token.SUB {
		k = -k
	}
	return k, true
}

// invariantBound: a value that does not change while the loop runs.
func (l *loopInfo) invariantBound(v ssa.Value) bool {
	if l.definedOutside(v) {
		return true
	}
	switch v := v.(type) {
	case *ssa.Call:
		// len(x) / x.Len() / utf8.RuneCountInString(x) of a loop-invariant x, re-evaluated each time
		if b, ok := v.Call.Value.(*ssa.Builtin); ok && (b.Name() == "len" || b.Name() == "cap") {
			return l.invariantBound(v.Call.Args[0])
		}
		if callee := v.Call.StaticCallee(); callee != nil {
			if isReflectValue(recvType(callee)) && (callee.Name() == "Len" || callee.Name() == "NumField" || callee.Name() == "NumMethod") {
				return l.invariantBound(v.Call.Args[0])
			}
			if len(callee.Blocks) > 0 && readOnlyFunc(callee, 0) {
				for _, a := range v.Call.Args {
					if !l.invariantBound(a) {
						return false
					}
				}
				return true
			}
		}
	case *ssa.BinOp:
		return l.invariantBound(v.X) && l.invariantBound(v.Y)
	case *ssa.UnOp:
		if v.Op == token.MUL {
			// load of a local cell that is not stored to inside the loop
			if stores, ok := cellStores(v.X); ok {
				for _, s := range stores {
					if l.body[s.Block()] {
						return false
					}
				}
				return true
			}
			// field of a loop-invariant pointer with no store to that field inside the loop
			if fa, ok := v.X.(*ssa.FieldAddr); ok && l.invariantBound(fa.X) {
				return true
			}
		}
	}
	return false
}

// readOnlyFunc: the function only inspects its arguments (no stores, map updates, sends,
// goroutines, defers; calls only to reflect.Value read methods, jtypes predicates and other
// read-only module functions). Its result is then a function of its (invariant) arguments.
var readOnlyMemo = map[*ssa.Function]bool{}

func readOnlyFunc(f *ssa.Function, depth int) bool {
	if depth == 0 {
		if v, ok := readOnlyMemo[f]; ok {
			return v
		}
		v := readOnlyFunc1(f, 0)
		readOnlyMemo[f] = v
		return v
	}
	return readOnlyFunc1(f, depth)
}

func readOnlyFunc1(f *ssa.Function, depth int) bool {
	if depth > 8 || len(f.Blocks) == 0 {
		return false
	}
	for _, b := range f.Blocks {
		for _, ins := range b.Instrs {
			switch ins := ins.(type) {
			case *ssa.Store, *ssa.MapUpdate, *ssa.Send, *ssa.Go, *ssa.Defer, *ssa.Panic, *ssa.MakeClosure:
				return false
			case *ssa.Call:
				if _, isB := ins.Call.Value.(*ssa.Builtin); isB {
					switch ins.Call.Value.(*ssa.Builtin).Name() {
					case "len", "cap":
						continue
					}
					return false
				}
				callee := ins.Call.StaticCallee()
				if callee == nil {
					return false
				}
				if isReflectValue(recvType(callee)) {
					switch callee.Name() {
					case "Len", "Kind", "IsValid", "IsNil", "CanInterface", "Type", "NumField", "CanAddr", "Elem":
						continue
					}
					return false
				}
				if len(callee.Blocks) > 0 && readOnlyFunc(callee, depth+1) {
					continue
				}
				return false
			}
		}
	}
	return true
}

// classCounted (A): some exit test compares φ (or φ±c) with an invariant bound and every back
// edge of φ is φ ± c in the direction of the bound.
func (l *loopInfo) classCounted() (string, bool) {
	for _, iff := range l.exits() {
		bo, ok := iff.Cond.(*ssa.BinOp)
		if !ok {
			continue
		}
		stayOnTrue := l.body[iff.Block().Succs[0]]
		for _, side := range []int{0, 1} {
			iv, bound := bo.X, bo.Y
			op := bo.Op
			if side == 1 {
				iv, bound = bo.Y, bo.X
				op = map[token.Token]token.Token{token.LSS: token.GTR, token.LEQ: token.GEQ, token.GTR: token.LSS, token.GEQ: token.LEQ, token.NEQ: token.NEQ, token.EQL: token.EQL}[op]
			}
			if !stayOnTrue {
				op = map[token.Token]token.Token{token.LSS: token.GEQ, token.LEQ: token.GTR, token.GTR: token.LEQ, token.GEQ: token.LSS, token.NEQ: token.EQL, token.EQL: token.NEQ}[op]
			}
			if !l.invariantBound(bound) {
				continue
			}
			// the test must be executed on every cycle
			tb := iff.Block()
			if !l.everyCycleHits(func(b *ssa.BasicBlock) bool { return b == tb }) {
				continue
			}
			// iv is φ itself or φ + c computed in the header (range loops test the incremented index)
			var phi *ssa.Phi
			if p, ok := iv.(*ssa.Phi); ok && p.Block() == l.header {
				phi = p
			} else if b2, ok := iv.(*ssa.BinOp); ok {
				if p, ok := b2.X.(*ssa.Phi); ok && p.Block() == l.header {
					if _, isStep := stepOf(iv, p); isStep {
						phi = p
					}
				}
			}
			if phi == nil || !isIntType(phi.Type()) {
				continue
			}
			_, inside := l.phiEdges(phi)
			if len(inside) == 0 {
				continue
			}
			dir := int64(0)
			okAll := true
			for _, e := range inside {
				k, ok := stepOf(e, phi)
				if !ok {
					okAll = false
					break
				}
				if dir == 0 {
					dir = k
				} else if (dir > 0) != (k > 0) {
					okAll = false
				}
			}
			if !okAll {
				continue
			}
			switch {
			case dir > 0 && (op == token.LSS || op == token.LEQ):
				return fmt.Sprintf("counted: %s += %d while %s %s invariant bound", phiName(phi), dir, phiName(phi), op), true
			case dir < 0 && (op == token.GTR || op == token.GEQ):
				return fmt.Sprintf("counted: %s -= %d while %s %s invariant bound", phiName(phi), -dir, phiName(phi), op), true
			case (dir == 1 || dir == -1) && op == token.NEQ:
				// i != n with unit steps: only sound if it cannot jump over; accept unit steps from below is value-level -> not accepted
			}
		}
	}
	return "", false
}

func phiName(p *ssa.Phi) string {
	if p.Comment != "" {
		return p.Comment
	}
	return p.Name()
}

// classRange (R): the header calls Next on an iterator created outside the loop and the loop is
// left when it reports !ok.
func (l *loopInfo) classRange() (string, bool) {
	for _, ins := range l.header.Instrs {
		nx, ok := ins.(*ssa.Next)
		if !ok {
			continue
		}
		if !l.definedOutside(nx.Iter) {
			continue
		}
		for _, iff := range l.exits() {
			if ex, ok := iff.Cond.(*ssa.Extract); ok && ex.Tuple == ssa.Value(nx) && ex.Index == 0 && !l.body[iff.Block().Succs[1]] {
				kind := "map"
				if nx.IsString {
					kind = "string"
				}
				return "range over a " + kind + " iterator created outside the loop", true
			}
		}
	}
	return "", false
}

// suffixOf: v is obtained from phi by slicing with a low bound that is provably >= 1 at least
// once, and otherwise only by suffix slices (low >= 0). Returns (derives, shrinks).
func (l *loopInfo) suffixOf(c *Ctx, v ssa.Value, phi *ssa.Phi, depth int, seen map[ssa.Value]bool) (bool, bool) {
	if depth > 12 {
		return false, false
	}
	if v == ssa.Value(phi) {
		return true, false
	}
	if seen[v] {
		return true, true // a cycle through an inner phi: judged by its other edges
	}
	switch v := v.(type) {
	case *ssa.Slice:
		d, s := l.suffixOf(c, v.X, phi, depth+1, seen)
		if !d {
			return false, false
		}
		if v.High != nil && !l.highIsLen(v) {
			// a prefix cut also shrinks or keeps; fine for termination only if something shrinks
		}
		if v.Low != nil && atLeastOne(c, v.Low, v.Block()) {
			return true, true
		}
		return true, s
	case *ssa.Phi:
		seen[v] = true
		allD, allS := true, true
		for i, e := range v.Edges {
			_ = i
			d, s := l.suffixOf(c, e, phi, depth+1, seen)
			if !d {
				allD = false
			}
			if !s {
				allS = false
			}
		}
		return allD, allD && allS
	}
	return false, false
}

func (l *loopInfo) highIsLen(s *ssa.Slice) bool { return false }

// atLeastOne: integer value provably >= 1 at block b.
func atLeastOne(c *Ctx, v ssa.Value, b *ssa.BasicBlock) bool {
	if k, ok := constInt(v); ok {
		return k >= 1
	}
	if guardedCmp(v, b, func(op token.Token, k int64) bool {
		return (op == token.GTR && k >= 0) || (op == token.GEQ && k >= 1)
	}) {
		return true
	}
	switch v := v.(type) {
	case *ssa.BinOp:
		if v.Op == token.ADD {
			if kx, ok := constInt(v.Y); ok {
				return kx >= 1 && atLeastZero(c, v.X, b) || kx >= 0 && atLeastOne(c, v.X, b)
			}
			if kx, ok := constInt(v.X); ok {
				return kx >= 1 && atLeastZero(c, v.Y, b) || kx >= 0 && atLeastOne(c, v.Y, b)
			}
			return (atLeastOne(c, v.X, b) && atLeastZero(c, v.Y, b)) || (atLeastZero(c, v.X, b) && atLeastOne(c, v.Y, b))
		}
	case *ssa.Extract:
		// width of a decoded rune under a non-empty test: utf8.DecodeRune*(s) returns w >= 1 for len(s) > 0
		if call, ok := v.Tuple.(*ssa.Call); ok && v.Index == 1 {
			if callee := call.Call.StaticCallee(); callee != nil && calleePkgPath(callee) == "unicode/utf8" && strings.HasPrefix(callee.Name(), "DecodeRune") {
				return nonEmptyAt(call.Call.Args[0], call.Block())
			}
		}
	case *ssa.Call:
		if callee := v.Call.StaticCallee(); callee != nil && calleePkgPath(callee)+"."+callee.Name() == "unicode/utf8.RuneLen" {
			return true // assumption recorded by the caller: the rune is valid
		}
	}
	return false
}

// nonEmptyAt: len(s) > 0 is established by a dominating guard (or the loop condition).
func nonEmptyAt(s ssa.Value, b *ssa.BasicBlock) bool {
	for _, hb := range b.Parent().Blocks {
		if len(hb.Instrs) == 0 {
			continue
		}
		iff, ok := hb.Instrs[len(hb.Instrs)-1].(*ssa.If)
		if !ok {
			continue
		}
		bo, ok := iff.Cond.(*ssa.BinOp)
		if !ok {
			continue
		}
		call, ok := bo.X.(*ssa.Call)
		if !ok {
			continue
		}
		bi, ok := call.Call.Value.(*ssa.Builtin)
		if !ok || bi.Name() != "len" || call.Call.Args[0] != s {
			continue
		}
		k, ok := constInt(bo.Y)
		if !ok {
			continue
		}
		succ := -1
		switch {
		case bo.Op == token.GTR && k >= 0, bo.Op == token.NEQ && k == 0, bo.Op == token.GEQ && k >= 1:
			succ = 0
		case bo.Op == token.EQL && k == 0, bo.Op == token.LEQ && k >= 0, bo.Op == token.LSS && k >= 1:
			succ = 1
		}
		if succ < 0 {
			continue
		}
		t := hb.Succs[succ]
		if (len(t.Preds) == 1 && t.Dominates(b)) || t == b && len(t.Preds) == 1 {
			return true
		}
	}
	return false
}

func atLeastZero(c *Ctx, v ssa.Value, b *ssa.BasicBlock) bool {
	if nonNeg(c, v, b, 0) {
		return true
	}
	// strings.Index* returns >= -1; with a dominating `!= -1` (or `== -1` leaving) it is >= 0
	isIndexCall := func(x ssa.Value) bool {
		call, ok := x.(*ssa.Call)
		if !ok {
			return false
		}
		callee := call.Call.StaticCallee()
		return callee != nil && calleePkgPath(callee) == "strings" && strings.Contains(callee.Name(), "Index")
	}
	// the value itself, or a phi all of whose edges are such calls (for pos := Index(…); pos != -1; pos = Index(…))
	idx := isIndexCall(v)
	if phi, ok := v.(*ssa.Phi); ok && len(phi.Edges) > 0 {
		idx = true
		for _, e := range phi.Edges {
			if !isIndexCall(e) {
				idx = false
			}
		}
	}
	if idx {
		return guardedCmp(v, b, func(op token.Token, k int64) bool {
			return (op == token.NEQ && k == -1) || (op == token.GTR && k >= -1) || (op == token.GEQ && k >= 0)
		})
	}
	return false
}

// classConsumer (B): a string/slice header phi whose every back edge is a strictly shorter suffix.
func (l *loopInfo) classConsumer(c *Ctx) (string, bool) {
	for _, ins := range l.header.Instrs {
		phi, ok := ins.(*ssa.Phi)
		if !ok {
			break
		}
		switch t := phi.Type().Underlying().(type) {
		case *types.Basic:
			if t.Info()&types.IsString == 0 {
				continue
			}
		case *types.Slice:
		default:
			continue
		}
		_, inside := l.phiEdges(phi)
		if len(inside) == 0 {
			continue
		}
		all := true
		for _, e := range inside {
			d, s := l.suffixOf(c, e, phi, 0, map[ssa.Value]bool{})
			if !d || !s {
				all = false
			}
		}
		if all {
			return "consumer: every back edge replaces " + phiName(phi) + " by a suffix starting at an offset >= 1 (finite length is the variant)", true
		}
	}
	return "", false
}

// classScaling (M): for x < c { x *= k } with constant k > 1 and x provably positive on entry.
func (l *loopInfo) classScaling() (string, string, bool) {
	for _, iff := range l.exits() {
		bo, ok := iff.Cond.(*ssa.BinOp)
		if !ok || !isFloat(bo.X.Type()) {
			continue
		}
		phi, ok := bo.X.(*ssa.Phi)
		if !ok || phi.Block() != l.header || !l.body[iff.Block().Succs[0]] {
			continue
		}
		outside, inside := l.phiEdges(phi)
		if len(inside) != 1 || len(outside) != 1 {
			continue
		}
		upd, ok := inside[0].(*ssa.BinOp)
		if !ok || upd.X != ssa.Value(phi) {
			continue
		}
		kc, ok := upd.Y.(*ssa.Const)
		if !ok || kc.Value == nil {
			continue
		}
		k, _ := constant.Float64Val(kc.Value)
		switch {
		case bo.Op == token.LSS && upd.Op == token.MUL && k > 1:
			// need x > 0 on entry
			if positiveOnEntry(outside[0]) {
				return "scaling: " + phiName(phi) + " > 0 on entry (math.Abs of a value tested non-zero) and is multiplied by a constant > 1 until it reaches the bound (at the latest as +Inf)", "", true
			}
			return "", "multiplicative scaling loop `for x < c { x *= k }` whose variable is not provably positive on entry: it never terminates for 0 or a negative value", false
		case bo.Op == token.GTR && upd.Op == token.QUO && k > 1:
			return "", "dividing", false
		}
	}
	return "", "", false
}

// positiveOnEntry: v = math.Abs(y) computed where `y != 0` holds, or v has a dominating v > 0 test.
var loopCtx *Ctx

// nonZeroAt: block b is reached only after `y != 0` held.
func nonZeroAt(y ssa.Value, b *ssa.BasicBlock) bool {
	test := func(cond ssa.Value) (int, bool) {
		bo, ok := cond.(*ssa.BinOp)
		if !ok || bo.X != y {
			return 0, false
		}
		if k, ok := bo.Y.(*ssa.Const); !ok || k.Value == nil || constant.Sign(k.Value) != 0 {
			return 0, false
		}
		switch bo.Op {
		case token.NEQ:
			return 0, true
		case token.EQL:
			return 1, true
		}
		return 0, false
	}
	if domGuard(b, test) {
		return true
	}
	// a && b short-circuit: the block is the true successor of a phi-of-bools condition whose
	// only non-constant edge is the test
	for d := b; d != nil; d = d.Idom() {
		if len(d.Preds) != 1 {
			continue
		}
		pr := d.Preds[0]
		iff, ok := pr.Instrs[len(pr.Instrs)-1].(*ssa.If)
		if !ok || pr.Succs[0] != d {
			continue
		}
		phi, ok := iff.Cond.(*ssa.Phi)
		if !ok {
			continue
		}
		for i, ed := range phi.Edges {
			if k, isK := ed.(*ssa.Const); isK && k.Value != nil && k.Value.Kind() == constant.Bool && !constant.BoolVal(k.Value) {
				continue // false edges cannot lead to the true successor
			}
			// a non-constant edge: the test itself, evaluated in its predecessor, or the predecessor
			// is reached only after the test held
			if succ, ok := test(ed); ok && succ == 0 {
				continue
			}
			if domGuard(phi.Block().Preds[i], test) {
				continue
			}
			return false
		}
		return true
	}
	return false
}

func positiveOnEntry(v ssa.Value) bool {
	if p, isParam := v.(*ssa.Parameter); isParam && loopCtx != nil {
		// a helper that is only ever called statically: the property must hold at every call
		f := p.Parent()
		idx := -1
		for i, q := range f.Params {
			if q == p {
				idx = i
			}
		}
		sites, ok := loopCtx.staticCallers(f)
		if !ok || len(sites) == 0 || idx < 0 {
			return false
		}
		for _, s := range sites {
			args := s.Common().Args
			if idx >= len(args) || !positiveOnEntry(args[idx]) {
				return false
			}
		}
		return true
	}
	call, ok := v.(*ssa.Call)
	if ok && isPkgFunc(call.Call.StaticCallee(), "math", "Abs") {
		y := call.Call.Args[0]
		if p, isParam := y.(*ssa.Parameter); isParam && loopCtx != nil {
			// math.Abs of a parameter: non-zero when every (static) caller has tested its
			// argument against zero
			f := p.Parent()
			idx := -1
			for i, q := range f.Params {
				if q == p {
					idx = i
				}
			}
			if sites, okS := loopCtx.staticCallers(f); okS && len(sites) > 0 && idx >= 0 {
				all := true
				for _, s := range sites {
					args := s.Common().Args
					if idx >= len(args) || !nonZeroAt(args[idx], s.Block()) {
						all = false
					}
				}
				if all {
					return true
				}
			}
		}
		return domGuard(call.Block(), func(cond ssa.Value) (int, bool) {
			bo, ok := cond.(*ssa.BinOp)
			if !ok || bo.X != y {
				return 0, false
			}
			if k, ok := bo.Y.(*ssa.Const); !ok || k.Value == nil || constant.Sign(k.Value) != 0 {
				return 0, false
			}
			switch bo.Op {
			case token.NEQ:
				return 0, true
			case token.EQL:
				return 1, true
			}
			return 0, false
		})
	}
	if ins, ok := v.(ssa.Instruction); ok {
		return domGuard(ins.Block(), func(cond ssa.Value) (int, bool) {
			bo, ok := cond.(*ssa.BinOp)
			if !ok || bo.X != v || bo.Op != token.GTR {
				return 0, false
			}
			if k, ok := bo.Y.(*ssa.Const); ok && k.Value != nil && constant.Sign(k.Value) >= 0 {
				return 0, true
			}
			return 0, false
		})
	}
	return false
}

// loopTableX: reviewed loops, keyed by function and shape.
var loopTableX = map[string]string{
	"jtypes:v=v.Elem()":           "each iteration replaces v by v.Elem(): the pointer/interface chain of a value built from JSON (or any acyclic Go value) is finite; a self-referential interface value is outside the property's inputs (assumption)",
	"jxpath:for x > c { x /= k }": "runs after the multiplying loop on the same variable: x is finite unless that loop overflowed, and it can only overflow when its bound exceeded MaxFloat64/10, in which case this loop's bound (ten times larger) is +Inf and the test is false at once; a finite positive x divided by 10 falls below any positive bound",
}

func loopShapeKey(l *loopInfo) string {
	// a line-free description of the loop: function + the exit tests
	var parts []string
	for _, iff := range l.exits() {
		parts = append(parts, condShape(iff.Cond))
	}
	if len(parts) == 0 {
		return "for{}"
	}
	return "for " + strings.Join(parts, "|")
}

func condShape(v ssa.Value) string {
	switch v := v.(type) {
	case *ssa.BinOp:
		return valShape(v.X) + v.Op.String() + valShape(v.Y)
	case *ssa.Call:
		if f := v.Call.StaticCallee(); f != nil {
			return f.Name() + "()"
		}
		return "call()"
	case *ssa.Extract:
		return "ok"
	case *ssa.UnOp:
		return v.Op.String() + valShape(v.X)
	}
	return "cond"
}

func valShape(v ssa.Value) string {
	switch v := v.(type) {
	case *ssa.Const:
		if v.Value == nil {
			return "nil"
		}
		return v.Value.String()
	case *ssa.Phi:
		return phiName(v)
	case *ssa.Call:
		if b, ok := v.Call.Value.(*ssa.Builtin); ok {
			return b.Name() + "()"
		}
		if f := v.Call.StaticCallee(); f != nil {
			return f.Name() + "()"
		}
	}
	return "_"
}

type loopCfg struct {
	parserProgress map[*ssa.Function]bool // parseExpression, consume
	advance        *ssa.Function
	nextRune       *ssa.Function
	accept         *ssa.Function
	acceptAll      *ssa.Function
	eofTok         int64 // value of typeEOF
}

func loopConfig(c *Ctx) *loopCfg {
	cfg := &loopCfg{parserProgress: map[*ssa.Function]bool{}}
	for _, n := range []string{"jparse.(*parser).parseExpression", "jparse.(*parser).consume"} {
		if f := c.W.Fn(n); f != nil {
			cfg.parserProgress[f] = true
		}
	}
	cfg.advance = c.W.Fn("jparse.(*parser).advance")
	cfg.nextRune = c.W.Fn("jparse.(*lexer).nextRune")
	cfg.accept = c.W.Fn("jparse.(*lexer).accept")
	cfg.acceptAll = c.W.Fn("jparse.(*lexer).acceptAll")
	return cfg
}

// classParser (P)
func (l *loopInfo) classParser(c *Ctx, cfg *loopCfg) (string, bool) {
	if len(cfg.parserProgress) < 2 {
		return "", false
	}
	hit := func(b *ssa.BasicBlock) bool {
		return blockCalls(b, func(ci ssa.CallInstruction) bool {
			callee := ci.Common().StaticCallee()
			if cfg.parserProgress[callee] {
				return true
			}
			// a helper all of whose paths call a progress function before returning
			if callee != nil && fnPkg(callee) == fnPkg(l.fn) && len(callee.Blocks) > 0 && callee != l.fn {
				return allPathsCall(callee, cfg.parserProgress, 0)
			}
			return false
		})
	}
	if l.everyCycleHits(hit) {
		return "parser loop: every cycle calls parseExpression or consume, each of which consumes a token or panics with a *Error at the end of input", true
	}
	// the Pratt loop itself: every cycle calls advance; it is left when bp(token) <= rbp, and
	// the EOF token has no binding power (table), so the end of input leaves the loop
	if cfg.advance != nil && l.fn.Name() == "parseExpression" {
		prattTest := false
		for _, iff := range l.exits() {
			if bo, ok := iff.Cond.(*ssa.BinOp); ok && bo.Op == token.LSS && bo.X == ssa.Value(l.fn.Params[1]) {
				prattTest = true
			}
		}
		if prattTest && eofHasNoBindingPower(c) && l.everyCycleHits(func(b *ssa.BasicBlock) bool {
			return blockCalls(b, func(ci ssa.CallInstruction) bool {
				callee := ci.Common().StaticCallee()
				if callee == cfg.advance {
					return true
				}
				// the infix half of the loop body moved into a method: all of its paths advance
				return callee != nil && fnPkg(callee) == fnPkg(l.fn) && len(callee.Blocks) > 0 && callee != l.fn &&
					allPathsCall(callee, map[*ssa.Function]bool{cfg.advance: true}, 0)
			})
		}) {
			return "Pratt loop: every cycle calls advance (one token consumed), and the loop test rbp < bp(token) fails at the end of input because the EOF token has no binding power in the bps table (rbp >= 0 at every call: 0, bp(t) or bp(t)-1 of a token with bp >= 2)", true
		}
	}
	// advance with an EOF test among the exits
	if cfg.advance != nil {
		eofExit := false
		for _, iff := range l.exits() {
			if bo, ok := iff.Cond.(*ssa.BinOp); ok && (bo.Op == token.NEQ || bo.Op == token.EQL) {
				if k, ok := constInt(bo.Y); ok && k == 0 { // typeEOF is the zero token type
					if _, isTok := bo.X.Type().(*types.Named); isTok && isNamed(bo.X.Type(), "jparse", "tokenType") {
						eofExit = true
					}
				}
			}
		}
		if eofExit && l.everyCycleHits(func(b *ssa.BasicBlock) bool {
			return blockCalls(b, func(ci ssa.CallInstruction) bool { return ci.Common().StaticCallee() == cfg.advance })
		}) {
			return "parser loop: every cycle calls advance and the loop is left when the token is EOF", true
		}
	}
	return "", false
}

// allPathsCall: every path from entry to a return of f passes a call to one of fns.
func allPathsCall(f *ssa.Function, fns map[*ssa.Function]bool, depth int) bool {
	if depth > 3 || len(f.Blocks) == 0 {
		return false
	}
	hit := func(b *ssa.BasicBlock) bool {
		return blockCalls(b, func(ci ssa.CallInstruction) bool { return fns[ci.Common().StaticCallee()] })
	}
	seen := map[*ssa.BasicBlock]bool{}
	var reachRet func(b *ssa.BasicBlock) bool
	reachRet = func(b *ssa.BasicBlock) bool {
		if seen[b] {
			return false
		}
		seen[b] = true
		if hit(b) {
			return false
		}
		if len(b.Instrs) > 0 {
			if _, isRet := b.Instrs[len(b.Instrs)-1].(*ssa.Return); isRet {
				return true
			}
		}
		for _, s := range b.Succs {
			if reachRet(s) {
				return true
			}
		}
		return false
	}
	return !reachRet(f.Blocks[0])
}

// classLexer (L)
func (l *loopInfo) classLexer(c *Ctx, cfg *loopCfg) (string, bool) {
	if cfg.nextRune == nil {
		return "", false
	}
	// blocks with a nextRune call whose eof outcome leaves the loop
	progress := func(b *ssa.BasicBlock) bool {
		for _, ins := range b.Instrs {
			call, ok := ins.(*ssa.Call)
			if !ok || call.Call.StaticCallee() != cfg.nextRune || call.Referrers() == nil {
				continue
			}
			for _, ref := range *call.Referrers() {
				bo, ok := ref.(*ssa.BinOp)
				if !ok || (bo.Op != token.EQL && bo.Op != token.NEQ) {
					continue
				}
				other := bo.Y
				if bo.Y == ssa.Value(call) {
					other = bo.X
				}
				if k, ok := constInt(other); !ok || k != -1 {
					continue
				}
				if bo.Referrers() == nil {
					continue
				}
				for _, rr := range *bo.Referrers() {
					iff, ok := rr.(*ssa.If)
					if !ok || !l.body[iff.Block()] {
						continue
					}
					eofSucc := iff.Block().Succs[0]
					if bo.Op == token.NEQ {
						eofSucc = iff.Block().Succs[1]
					}
					if !l.body[eofSucc] {
						return true
					}
				}
			}
		}
		return false
	}
	if l.everyCycleHits(progress) {
		return "lexer loop: every cycle reads a rune with nextRune and the loop is left when it returns eof (the input is finite)", true
	}
	// the rune tested against eof may be a phi of reads (`if r == '\\' { r = nextRune() }; if r
	// == eof`, or `for r := nextRune(); …; r = nextRune()`): every cycle reads a rune, and every
	// cycle tests the latest rune read against eof with an exit; nextRune keeps returning eof at
	// the end of the input, so the loop is left at the latest one cycle later
	var isRead func(v ssa.Value, seen map[ssa.Value]bool) bool
	isRead = func(v ssa.Value, seen map[ssa.Value]bool) bool {
		if seen[v] {
			return true
		}
		seen[v] = true
		switch x := v.(type) {
		case *ssa.Call:
			return x.Call.StaticCallee() == cfg.nextRune
		case *ssa.Phi:
			for _, e := range x.Edges {
				if !isRead(e, seen) {
					return false
				}
			}
			return len(x.Edges) > 0
		}
		return false
	}
	reads := func(b *ssa.BasicBlock) bool {
		return blockCalls(b, func(ci ssa.CallInstruction) bool { return ci.Common().StaticCallee() == cfg.nextRune })
	}
	eofExit := func(b *ssa.BasicBlock) bool {
		iff, ok := b.Instrs[len(b.Instrs)-1].(*ssa.If)
		if !ok {
			return false
		}
		bo, ok := iff.Cond.(*ssa.BinOp)
		if !ok || (bo.Op != token.EQL && bo.Op != token.NEQ) {
			return false
		}
		x, other := bo.X, bo.Y
		if k, ok := constInt(other); !ok || k != -1 {
			x, other = bo.Y, bo.X
			if k, ok := constInt(other); !ok || k != -1 {
				return false
			}
		}
		if !isRead(x, map[ssa.Value]bool{}) {
			return false
		}
		eofSucc := b.Succs[0]
		if bo.Op == token.NEQ {
			eofSucc = b.Succs[1]
		}
		return !l.body[eofSucc]
	}
	if l.everyCycleHits(reads) && l.everyCycleHits(eofExit) {
		return "lexer loop: every cycle reads a rune with nextRune and tests the latest rune read against eof, leaving the loop there (nextRune keeps returning eof at the end of the finite input)", true
	}
	// the eof test need not lie on every path through the loop body: the other paths are the ones
	// on which the rune was found equal to something else (a delimiter, a bracket), so a rune
	// that is eof reaches the test. Same strength as the first form above, for a tested rune
	// that is a phi of reads.
	if l.everyCycleHits(reads) {
		for _, b := range l.fn.Blocks {
			if l.body[b] && eofExit(b) {
				return "lexer loop: every cycle reads a rune with nextRune, and the rune read last is tested against eof with an exit from the loop (the input is finite and nextRune keeps returning eof at its end)", true
			}
		}
	}
	// acceptAll: for l.accept(p) {...} with p the function's parameter
	if l.fn == cfg.acceptAll && cfg.accept != nil {
		for _, iff := range l.exits() {
			if call, ok := iff.Cond.(*ssa.Call); ok && call.Call.StaticCallee() == cfg.accept && len(l.fn.Params) == 2 && call.Call.Args[1] == ssa.Value(l.fn.Params[1]) {
				return "lexer loop: runs while accept(p) succeeds; accept consumes one rune per success and fails at eof for eof-rejecting predicates (checked at every call site of acceptAll)", true
			}
		}
	}
	// the same loop written out where it is needed: for l.accept(isX) {...} with a named predicate
	// that rejects eof
	if cfg.accept != nil {
		for _, iff := range l.exits() {
			call, ok := iff.Cond.(*ssa.Call)
			if !ok || call.Call.StaticCallee() != cfg.accept || len(call.Call.Args) != 2 || !l.body[iff.Block().Succs[0]] || l.body[iff.Block().Succs[1]] {
				continue
			}
			var pf *ssa.Function
			switch x := call.Call.Args[1].(type) {
			case *ssa.Function:
				pf = x
			case *ssa.MakeClosure:
				if len(x.Bindings) == 0 {
					pf, _ = x.Fn.(*ssa.Function)
				}
			}
			if pf == nil {
				continue
			}
			if res, ok := evalPredicateOnConst(pf, -1, nil); ok && !res {
				return "lexer loop: runs while accept(" + pf.Name() + ") succeeds; accept consumes one rune per success and " + pf.Name() + " rejects eof", true
			}
		}
	}
	return "", false
}

// evalPredicateOnConst interprets a func(rune) bool on a constant argument (loop-free CFG of
// comparisons with constants); ok=false if it cannot be decided.
func evalPredicateOnConst(f *ssa.Function, arg int64, bound map[*ssa.FreeVar]int64) (result bool, ok bool) {
	if f == nil || len(f.Blocks) == 0 || len(f.Params) < 1 {
		return false, false
	}
	param := f.Params[len(f.Params)-1]
	val := func(v ssa.Value) (int64, bool) {
		if v == ssa.Value(param) {
			return arg, true
		}
		if fv, isFV := v.(*ssa.FreeVar); isFV {
			if k, has := bound[fv]; has {
				return k, true
			}
			return 0, false
		}
		if u, isU := v.(*ssa.UnOp); isU && u.Op == token.MUL {
			if fv, isFV := u.X.(*ssa.FreeVar); isFV {
				if k, has := bound[fv]; has {
					return k, true
				}
			}
			return 0, false
		}
		return constInt(v)
	}
	var boolOf func(v ssa.Value, from *ssa.BasicBlock, cur *ssa.BasicBlock) (bool, bool)
	boolOf = func(v ssa.Value, from, cur *ssa.BasicBlock) (bool, bool) {
		switch v := v.(type) {
		case *ssa.Const:
			if v.Value != nil && v.Value.Kind() == constant.Bool {
				return constant.BoolVal(v.Value), true
			}
		case *ssa.BinOp:
			x, ok1 := val(v.X)
			y, ok2 := val(v.Y)
			if !ok1 || !ok2 {
				return false, false
			}
			switch v.Op {
			case token.EQL:
				return x == y, true
			case token.NEQ:
				return x != y, true
			case token.LSS:
				return x < y, true
			case token.LEQ:
				return x <= y, true
			case token.GTR:
				return x > y, true
			case token.GEQ:
				return x >= y, true
			}
		case *ssa.Phi:
			for i, p := range v.Block().Preds {
				if p == from {
					return boolOf(v.Edges[i], nil, p)
				}
			}
		case *ssa.UnOp:
			if v.Op == token.NOT {
				b, ok := boolOf(v.X, from, cur)
				return !b, ok
			}
		case *ssa.Call:
			// another predicate of the same shape applied to a known value: isDigit(r) inside
			// isNonZeroDigit(r)
			g := v.Call.StaticCallee()
			if g == nil || len(g.Blocks) == 0 || len(v.Call.Args) != 1 || len(g.FreeVars) != 0 || g == f {
				return false, false
			}
			a, okA := val(v.Call.Args[0])
			if !okA {
				return false, false
			}
			return evalPredicateOnConst(g, a, nil)
		}
		return false, false
	}
	cur := f.Blocks[0]
	var from *ssa.BasicBlock
	for steps := 0; steps < 200; steps++ {
		last := cur.Instrs[len(cur.Instrs)-1]
		switch t := last.(type) {
		case *ssa.Return:
			return boolOf(t.Results[0], from, cur)
		case *ssa.If:
			b, ok := boolOf(t.Cond, from, cur)
			if !ok {
				return false, false
			}
			from = cur
			if b {
				cur = cur.Succs[0]
			} else {
				cur = cur.Succs[1]
			}
		case *ssa.Jump:
			from = cur
			cur = cur.Succs[0]
		default:
			return false, false
		}
	}
	return false, false
}

// runLOOP classifies every loop of the given functions.
func runLOOP(c *Ctx, r *Result, rule string, fns []*ssa.Function, reach *Reach) map[string]int {
	loopCtx = c
	cfg := loopConfig(c)
	counts := map[string]int{}
	sortFns(fns)
	for _, f := range fns {
		if f.Synthetic != "" || len(f.Blocks) == 0 {
			continue
		}
		loops := findLoops(f)
		shapeOrd := map[string]int{}
		for _, l := range loops {
			shape := loopShapeKey(l)
			shapeOrd[shape]++
			key := fmt.Sprintf("%s:%s#%d", shortFn(f), shape, shapeOrd[shape])
			pos := c.W.Pos(firstPos(l))
			o := Obligation{Rule: rule, Key: key, Fn: shortFn(f), Pos: pos, Nontrivial: true}
			class := ""
			if why, ok := l.classRange(); ok {
				class, o.Verdict, o.Reason = "R", Discharged, why
				o.Nontrivial = false
			} else if why, ok := l.classCounted(); ok {
				class, o.Verdict, o.Reason = "A", Discharged, why
			} else if why, ok := l.classConsumer(c); ok {
				class, o.Verdict, o.Reason = "B", Discharged, why
			} else if why, ok := l.classEuclid(); ok {
				class, o.Verdict, o.Reason = "E", Discharged, why
			} else if why, ok := l.classParser(c, cfg); ok {
				class, o.Verdict, o.Reason = "P", Discharged, why
			} else if why, ok := l.classLexer(c, cfg); ok {
				class, o.Verdict, o.Reason = "L", Discharged, why
			} else if why, bad, ok := l.classScaling(); ok {
				class, o.Verdict, o.Reason = "M", Discharged, why
			} else if bad == "dividing" {
				k := pkgNameOf(f) + ":for x > c { x /= k }"
				if arg, has := loopTableX[k]; has {
					class, o.Verdict, o.Reason = "X", Exception, "reviewed ("+k+"): "+arg
				} else {
					class, o.Verdict, o.Reason = "?", Finding, "dividing float loop without a reviewed termination argument"
				}
			} else if bad != "" {
				class, o.Verdict, o.Reason = "M!", Finding, bad
			} else if arg, has := loopTableX[pkgNameOf(f)+":"+xShape(l)]; has {
				class, o.Verdict, o.Reason = "X", Exception, "reviewed ("+pkgNameOf(f)+":"+xShape(l)+"): "+arg
			} else if why, ok := l.classChain(); ok {
				class, o.Verdict, o.Reason = "C", Exception, why
			} else {
				class, o.Verdict, o.Reason = "?", Finding, "loop with no recognised variant (not a range, a counted loop towards an invariant bound, a shrinking-suffix consumer, a token/rune consuming loop, or a reviewed entry): it may not terminate"
			}
			if o.Verdict == Finding && reach != nil {
				o.Path = reach.Path(f)
			}
			counts[class]++
			r.Add(o)
		}
	}
	return counts
}

func pkgNameOf(f *ssa.Function) string {
	if p := fnPkg(f); p != nil {
		return p.Name()
	}
	return ""
}

// acyclicLinks: pointer fields that form finite chains, with the reason.
var acyclicLinks = map[string]string{
	"jsonata.environment.parent": "a child environment is created by newEnvironment from an already existing parent and the link is never reassigned (SCOPE), so parent chains are finite",
}

// classChain (C): the loop walks a pointer chain — its variable is φ(init, φ.link) and it stops
// at nil — over a link field known to form finite chains.
func (l *loopInfo) classChain() (string, bool) {
	for _, ins := range l.header.Instrs {
		phi, ok := ins.(*ssa.Phi)
		if !ok {
			break
		}
		pt, ok := phi.Type().Underlying().(*types.Pointer)
		if !ok {
			continue
		}
		_, inside := l.phiEdges(phi)
		if len(inside) == 0 {
			continue
		}
		field := ""
		all := true
		for _, e := range inside {
			ld, ok := e.(*ssa.UnOp)
			if !ok || ld.Op != token.MUL {
				all = false
				break
			}
			fa, ok := ld.X.(*ssa.FieldAddr)
			if !ok || fa.X != ssa.Value(phi) {
				all = false
				break
			}
			field = types.TypeString(pt.Elem(), func(p *types.Package) string { return p.Name() }) + "." + fieldName(fa.X.Type(), fa.Field)
		}
		if !all || field == "" {
			continue
		}
		why, known := acyclicLinks[field]
		if !known {
			continue
		}
		// some exit tests the variable against nil on every cycle
		for _, iff := range l.exits() {
			bo, ok := iff.Cond.(*ssa.BinOp)
			if !ok || (bo.Op != token.EQL && bo.Op != token.NEQ) {
				continue
			}
			isLink := func(v ssa.Value) bool {
				if v == ssa.Value(phi) {
					return true
				}
				ld, ok := v.(*ssa.UnOp)
				if !ok || ld.Op != token.MUL {
					return false
				}
				fa, ok := ld.X.(*ssa.FieldAddr)
				return ok && fa.X == ssa.Value(phi) && types.TypeString(pt.Elem(), func(p *types.Package) string { return p.Name() })+"."+fieldName(fa.X.Type(), fa.Field) == field
			}
			if (isLink(bo.X) && isNilConst(bo.Y)) || (isLink(bo.Y) && isNilConst(bo.X)) {
				tb := iff.Block()
				if l.everyCycleHits(func(b *ssa.BasicBlock) bool { return b == tb }) {
					return "walks the chain " + field + " until nil: " + why, true
				}
			}
		}
	}
	return "", false
}

func xShape(l *loopInfo) string {
	for _, ins := range l.header.Instrs {
		phi, ok := ins.(*ssa.Phi)
		if !ok {
			break
		}
		if !isReflectValue(phi.Type()) {
			continue
		}
		_, inside := l.phiEdges(phi)
		all := len(inside) > 0
		for _, e := range inside {
			call, ok := e.(*ssa.Call)
			if !ok || call.Call.StaticCallee() == nil || !isReflectValue(recvType(call.Call.StaticCallee())) || call.Call.StaticCallee().Name() != "Elem" || call.Call.Args[0] != ssa.Value(phi) {
				all = false
			}
		}
		if all {
			return "v=v.Elem()"
		}
	}
	if len(l.exits()) == 0 {
		// an infinite for with returns inside
		for b := range l.body {
			for _, ins := range b.Instrs {
				if call, ok := ins.(*ssa.Call); ok {
					if f := call.Call.StaticCallee(); f != nil && isReflectValue(recvType(f)) && f.Name() == "Kind" {
						return "for{switch Kind}"
					}
				}
			}
		}
	}
	return loopShapeKey(l)
}

func firstPos(l *loopInfo) token.Pos {
	best := token.NoPos
	for b := range l.body {
		for _, ins := range b.Instrs {
			if p := ins.Pos(); p.IsValid() && (best == token.NoPos || p < best) {
				best = p
			}
		}
	}
	return best
}

// runAcceptPredicates: every predicate handed to accept/acceptAll is false on eof (needed by class L).
func runAcceptPredicates(c *Ctx, r *Result, rule string) int {
	cfg := loopConfig(c)
	n := 0
	if cfg.accept == nil || cfg.acceptAll == nil {
		r.LoseAnchor("LOOP: lexer.accept / acceptAll not found")
		return 0
	}
	jp := c.W.Lib["jparse"].Types
	for _, f := range c.W.FuncsOf(PkgSet{jp: true}) {
		ord := 0
		for _, ci := range callsIn(f) {
			callee := ci.Common().StaticCallee()
			if callee != cfg.accept && callee != cfg.acceptAll {
				continue
			}
			pv := ci.Common().Args[1]
			if _, isParam := pv.(*ssa.Parameter); isParam {
				continue // forwarded parameter (acceptAll -> accept): judged at the outer call site
			}
			ord++
			n++
			o := Obligation{Rule: rule, Key: fmt.Sprintf("%s:accept-predicate#%d", shortFn(f), ord), Fn: shortFn(f), Pos: c.W.Pos(ci.Pos()), Nontrivial: true}
			var pf *ssa.Function
			bound := map[*ssa.FreeVar]int64{}
			decidable := true
			switch p := pv.(type) {
			case *ssa.Function:
				pf = p
			case *ssa.MakeClosure:
				pf = p.Fn.(*ssa.Function)
				for i, b := range p.Bindings {
					// the bound value (or the cell holding it) must be a rune that is not eof
					// evaluated with a non-eof representative; the arguments of the wrapper
					// (acceptRune/acceptRunes2) are checked to be non-eof at every call site
					_ = b
					bound[pf.FreeVars[i]] = 0
				}
			}
			res, ok := false, false
			if pf != nil && decidable {
				res, ok = evalPredicateOnConst(pf, -1, bound)
			}
			switch {
			case pf == nil || !ok:
				o.Verdict, o.Reason = Undecided, "cannot evaluate the predicate on eof"
			case res:
				o.Verdict, o.Reason = Finding, "the predicate accepts eof: accept would succeed for ever at the end of the input"
			default:
				o.Verdict, o.Reason = Discharged, "predicate "+shortFn(pf)+" is false on eof (-1)"
			}
			r.Add(o)
		}
	}
	// acceptRune / acceptRunes2 build closures comparing the rune with their parameters: the
	// closures were evaluated with a non-eof representative, so every argument must be non-eof.
	wrappers := map[*ssa.Function]bool{}
	for _, name := range []string{"jparse.(*lexer).acceptRune", "jparse.(*lexer).acceptRunes2"} {
		if f := c.W.Fn(name); f != nil {
			wrappers[f] = true
		}
	}
	tableOK := symbols2HasNoEOF(c)
	for _, f := range c.W.FuncsOf(PkgSet{jp: true}) {
		ord := 0
		for _, ci := range callsIn(f) {
			if !wrappers[ci.Common().StaticCallee()] {
				continue
			}
			for _, a := range ci.Common().Args[1:] {
				ord++
				n++
				o := Obligation{Rule: rule, Key: fmt.Sprintf("%s:acceptRune-arg#%d", shortFn(f), ord), Fn: shortFn(f), Pos: c.W.Pos(ci.Pos()), Nontrivial: !isConstVal(a)}
				if notEOF(c, a, ci.Block(), tableOK, 0) {
					o.Verdict, o.Reason = Discharged, "the rune to accept is not eof (constant, guarded by a test against eof, or taken from the symbol table)"
				} else {
					o.Verdict, o.Reason = Finding, "the rune handed to acceptRune may be eof: the look-ahead would succeed at the end of input without consuming anything"
				}
				r.Add(o)
			}
		}
	}
	return n
}

// notEOF: the rune value cannot be -1 at block b.
func notEOF(c *Ctx, v ssa.Value, b *ssa.BasicBlock, tableOK bool, depth int) bool {
	if depth > 4 {
		return false
	}
	if k, ok := constInt(v); ok {
		return k != -1
	}
	if guardedCmp(v, b, func(op token.Token, k int64) bool {
		return (op == token.NEQ && k == -1) || (op == token.GEQ && k >= 0) || (op == token.GTR && k >= -1)
	}) {
		return true
	}
	switch v := v.(type) {
	case *ssa.Parameter:
		f := v.Parent()
		if c.G.AddrTaken[f] {
			return false
		}
		idx := -1
		for i, p := range f.Params {
			if p == v {
				idx = i
			}
		}
		found := false
		for _, caller := range c.G.Funcs {
			for _, ci := range callsIn(caller) {
				if ci.Common().StaticCallee() != f || idx >= len(ci.Common().Args) {
					continue
				}
				found = true
				if !notEOF(c, ci.Common().Args[idx], ci.Block(), tableOK, depth+1) {
					return false
				}
			}
		}
		return found
	case *ssa.UnOp:
		if fa, ok := v.X.(*ssa.FieldAddr); ok && tableOK && isNamed(fa.X.Type(), "jparse", "runeTokenType") {
			return true
		}
	case *ssa.Field:
		if tableOK && isNamed(v.X.Type(), "jparse", "runeTokenType") {
			return true
		}
	}
	return false
}

// symbols2HasNoEOF: every rune in the symbols2 literal is a constant other than -1.
func symbols2HasNoEOF(c *Ctx) bool {
	pt := &prattTables{pkg: c.W.Lib["jparse"], tokName: map[string]string{}, lexTok: map[string]string{}, tokLex: map[string]string{}}
	sub := NewResult("x")
	if !pt.extractSymbols(c, sub) || len(sub.Lost) > 0 {
		return false
	}
	for lx := range pt.lexTok {
		for _, rn := range lx {
			if rn < 0 {
				return false
			}
		}
	}
	return len(pt.lexTok) > 0
}

// eofHasNoBindingPower: the zero token type (typeEOF) is in no row of the binding-power table.
func eofHasNoBindingPower(c *Ctx) bool {
	pt := &prattTables{pkg: c.W.Lib["jparse"], tokName: map[string]string{}, lexTok: map[string]string{}, tokLex: map[string]string{}, rowOf: map[string]int{}}
	sub := NewResult("x")
	if !pt.extractRows(c, sub) || len(sub.Lost) > 0 || len(pt.rowOf) == 0 {
		return false
	}
	_, has := pt.rowOf["0"]
	return !has
}

// ---------------------------------------------------------------------------------------
// recursion: every recursive SCC of the call graph under the roots has a reviewed descent

// recursionTable: anchor function -> the structural descent that bounds the recursion of the
// SCC containing it.
var recursionTable = map[string]string{
	"jsonata.eval": "AST depth: every eval* function recurses on child nodes of its node; callables re-enter eval on a lambda body / partial arguments, bounded by the property's exclusion of unboundedly recursive user functions",
	// (auto) jsonata.flattenArray
	// (auto) jsonata.recurseDescendents
	// (auto) jsonata.evalName
	"(*jsonata.environment).lookup":          "scope chain: recurses on the parent environment, a finite acyclic chain (a child is created from an existing parent)",
	"jsonata.evalPath":                       "AST depth (same SCC as jsonata.eval)",
	"jsonata.evalFunctionCall":               "AST depth (same SCC as jsonata.eval)",
	"jsonata.processOptionalArg":             "parameter descriptor (same SCC as processGoCallableArg)",
	"jsonata.processVariantArg":              "parameter descriptor (same SCC as processGoCallableArg)",
	"(*jparse.PathNode).optimize":            "AST depth (same SCC as the other optimize methods)",
	"(*jparse.BlockNode).optimize":           "AST depth (same SCC as the other optimize methods)",
	"(*jparse.parser).parseFunctionCall":     "token stream (same SCC as parseExpression)",
	"jparse.parseBlock":                      "token stream (same SCC as parseExpression)",
	"jsonata.newGoCallableParam":             "type structure: recurses on the element type of an Optional / the alternatives of a Variant",
	"jsonata.processGoCallableArg":           "parameter descriptor: recurses on optType / varTypes of the descriptor, a finite tree built by newGoCallableParam",
	"jsonata.newMatchCallable":               "match list: recurses on the tail of the matches slice",
	"(*jsonata.lambdaCallable).validArgType": "signature: recurses on SubParams of the parameter, a finite tree built by the parser",
	// (auto) jlib.Boolean
	"jlib.mergeSort":     "slice halving: recurses on values[:n/2] and values[n/2:] with n >= 2",
	"jlib.callMatchFunc": "match chain: each step follows the `next` callable of the previous match object; the chain built by newMatchCallable is finite",
	// (auto) jlib.TypeOf
	// (auto) jlib.keys
	// (auto) jlib.keysArray
	// (auto) jlib.Spread
	// (auto) jlib.spreadArray
	"jxpath.gcd":                       "Euclid: gcd(b, a%b) with b != 0 strictly decreases |b|",
	"jparse.unescape":                  "string suffix: recurses on the rest of the string after at least one consumed escape",
	"jparse.parseParams":               "string: recurses on the bracketed substring, strictly shorter than its argument",
	"(*jparse.parser).parseExpression": "token stream: every recursive entry is preceded by the consumption of a token (advance in parseExpression); the lexer makes progress on every token (LEX)",
	"(jparse.Param).String":            "signature tree: recurses on SubParams",
	"(*jparse.ArrayNode).optimize":     "AST depth: optimize recurses on the child nodes of its receiver (a finite tree built by the parser)",
	"(jparse.PathNode).String":         "AST depth: String recurses on child nodes",
	"(*jparse.PathNode).String":        "AST depth: String recurses on child nodes",
}

func sccs(g *MCG, nodes []*ssa.Function) [][]*ssa.Function {
	index := map[*ssa.Function]int{}
	low := map[*ssa.Function]int{}
	on := map[*ssa.Function]bool{}
	in := map[*ssa.Function]bool{}
	for _, n := range nodes {
		in[n] = true
	}
	var stack []*ssa.Function
	var out [][]*ssa.Function
	idx := 0
	var strong func(v *ssa.Function)
	strong = func(v *ssa.Function) {
		idx++
		index[v], low[v] = idx, idx
		stack = append(stack, v)
		on[v] = true
		for _, e := range g.Out[v] {
			w := e.Callee
			if !in[w] {
				continue
			}
			if index[w] == 0 {
				strong(w)
				if low[w] < low[v] {
					low[v] = low[w]
				}
			} else if on[w] && index[w] < low[v] {
				low[v] = index[w]
			}
		}
		if low[v] == index[v] {
			var comp []*ssa.Function
			for {
				w := stack[len(stack)-1]
				stack = stack[:len(stack)-1]
				on[w] = false
				comp = append(comp, w)
				if w == v {
					break
				}
			}
			out = append(out, comp)
		}
	}
	for _, n := range nodes {
		if index[n] == 0 {
			strong(n)
		}
	}
	return out
}

func runRecursion(c *Ctx, r *Result, rule string, reach *Reach) int {
	nodes := reach.Sorted()
	n := 0
	for _, comp := range sccs(c.G, nodes) {
		rec := len(comp) > 1
		if !rec {
			for _, e := range c.G.Out[comp[0]] {
				if e.Callee == comp[0] {
					rec = true
				}
			}
		}
		if !rec {
			continue
		}
		n++
		sortFns(comp)
		var names []string
		anchor, arg := "", ""
		for _, f := range comp {
			names = append(names, shortFn(f))
			if a, ok := recursionTable[shortFn(f)]; ok && anchor == "" {
				anchor, arg = shortFn(f), a
			}
		}
		key := "recursion:" + names[0]
		if anchor != "" {
			key = "recursion:" + anchor
		}
		o := Obligation{Rule: rule, Key: key, Fn: names[0], Pos: c.W.Pos(comp[0].Pos()), Nontrivial: true}
		show := names
		if len(show) > 6 {
			show = append(append([]string{}, show[:6]...), fmt.Sprintf("... (%d functions)", len(names)))
		}
		if anchor != "" {
			o.Verdict, o.Reason = Exception, fmt.Sprintf("reviewed recursion %v: %s", show, arg)
		} else if why := autoValueDescent(c, comp); why != "" {
			o.Verdict, o.Reason = Discharged, fmt.Sprintf("recursion %v descends the value: %s", show, why)
		} else {
			o.Verdict, o.Reason = Finding, fmt.Sprintf("recursive functions %v have no reviewed structural descent: the recursion may not terminate", show)
		}
		r.Add(o)
	}
	return n
}

// autoValueDescent recognises recursion on the depth of a data value without a table entry:
// every function of the SCC has exactly one reflect.Value parameter; on every call between
// members the argument for it is the caller's own parameter (possibly resolved) or a strict
// sub-part of it (Index, Field*, MapIndex, Elem); and no cycle consists only of calls that pass
// the parameter on unchanged. Values are finite and acyclic (ACYC), so the recursion ends.
func autoValueDescent(c *Ctx, comp []*ssa.Function) string {
	// functions that compare or combine two values in step (eq(lhs, rhs) -> eqArray(lhs, rhs) ->
	// eq(lhs[i], rhs[i])) descend on each of them: it is enough that the k-th reflect.Value
	// parameter descends, for some k
	minCount := 1 << 30
	for _, f := range comp {
		cnt := 0
		for _, p := range f.Params {
			if isReflectValue(p.Type()) {
				cnt++
			}
		}
		if cnt < minCount {
			minCount = cnt
		}
	}
	if minCount == 0 || minCount > 4 {
		return ""
	}
	for k := 0; k < minCount; k++ {
		if why := autoValueDescentOn(c, comp, k); why != "" {
			return why
		}
	}
	return ""
}

func autoValueDescentOn(c *Ctx, comp []*ssa.Function, k int) string {
	in := map[*ssa.Function]bool{}
	dataParam := map[*ssa.Function]*ssa.Parameter{}
	for _, f := range comp {
		in[f] = true
		var dp *ssa.Parameter
		cnt := 0
		for _, p := range f.Params {
			if isReflectValue(p.Type()) {
				if cnt == k {
					dp = p
				}
				cnt++
			}
		}
		if dp == nil {
			return ""
		}
		dataParam[f] = dp
	}
	var deriv func(v ssa.Value, f *ssa.Function, seen map[ssa.Value]bool) string // "same" | "sub" | ""
	deriv = func(v ssa.Value, f *ssa.Function, seen map[ssa.Value]bool) string {
		if seen[v] {
			return "sub" // neutral element for the phi meet below
		}
		seen[v] = true
		switch x := v.(type) {
		case *ssa.Parameter:
			if x == dataParam[f] {
				return "same"
			}
		case *ssa.Call:
			name := staticName(x)
			switch name {
			case "reflect.Value.Index", "reflect.Value.Field", "reflect.Value.FieldByName", "reflect.Value.FieldByIndex", "reflect.Value.MapIndex", "reflect.Value.Elem":
				if d := deriv(x.Call.Args[0], f, seen); d != "" {
					return "sub"
				}
				return ""
			}
			if callee := x.Call.StaticCallee(); callee != nil && shortFn(callee) == "jtypes.Resolve" {
				return deriv(x.Call.Args[0], f, seen)
			}
		case *ssa.Phi:
			res := "sub"
			for _, ed := range x.Edges {
				switch deriv(ed, f, seen) {
				case "":
					return ""
				case "same":
					res = "same"
				}
			}
			return res
		}
		return ""
	}
	sameEdges := map[*ssa.Function][]*ssa.Function{}
	edges, subs := 0, 0
	for _, f := range comp {
		for _, e := range c.G.Out[f] {
			if !in[e.Callee] || e.Site == nil {
				if in[e.Callee] {
					return "" // an edge without a call site (callback): arguments unknown
				}
				continue
			}
			if e.Site.Parent() != f {
				continue
			}
			args := e.Site.Common().Args
			off := 0
			if e.Site.Common().IsInvoke() {
				off = 1
			}
			dp := dataParam[e.Callee]
			idx := -1
			for i, p := range e.Callee.Params {
				if p == dp {
					idx = i - off
				}
			}
			if idx < 0 || idx >= len(args) {
				return ""
			}
			edges++
			switch deriv(args[idx], f, map[ssa.Value]bool{}) {
			case "sub":
				subs++
			case "same":
				sameEdges[f] = append(sameEdges[f], e.Callee)
			default:
				return ""
			}
		}
	}
	if edges == 0 || subs == 0 {
		return ""
	}
	// the pass-through edges alone must not form a cycle
	state := map[*ssa.Function]int{}
	var cyc func(f *ssa.Function) bool
	cyc = func(f *ssa.Function) bool {
		state[f] = 1
		for _, g := range sameEdges[f] {
			if state[g] == 1 || (state[g] == 0 && cyc(g)) {
				return true
			}
		}
		state[f] = 2
		return false
	}
	for _, f := range comp {
		if state[f] == 0 && cyc(f) {
			return ""
		}
	}
	return fmt.Sprintf("each member has one reflect.Value parameter; of the %d calls between members %d pass a strict sub-part (Index/Field/MapIndex/Elem) of it and the rest pass it on unchanged without forming a cycle", edges, subs)
}

// classEuclid (E): `for b != 0 { a, b = b, a % b }`. The loop is left when the integer phi b is
// zero, the test lies on every cycle, and on every back edge b becomes x % b for some x: the
// remainder is smaller in magnitude than the divisor, so |b| strictly decreases.
func (l *loopInfo) classEuclid() (string, bool) {
	for _, iff := range l.exits() {
		bo, ok := iff.Cond.(*ssa.BinOp)
		if !ok || (bo.Op != token.NEQ && bo.Op != token.EQL) {
			continue
		}
		var phi *ssa.Phi
		if k, isK := constInt(bo.Y); isK && k == 0 {
			phi, _ = bo.X.(*ssa.Phi)
		} else if k, isK := constInt(bo.X); isK && k == 0 {
			phi, _ = bo.Y.(*ssa.Phi)
		}
		if phi == nil || phi.Block() != l.header || !isIntType(phi.Type()) {
			continue
		}
		// the loop continues on b != 0
		stayOnTrue := l.body[iff.Block().Succs[0]]
		if (bo.Op == token.NEQ) != stayOnTrue {
			continue
		}
		if !l.everyCycleHits(func(b *ssa.BasicBlock) bool { return b == iff.Block() }) {
			continue
		}
		ok = true
		backs := 0
		for i, e := range phi.Edges {
			if !l.body[l.header.Preds[i]] {
				continue
			}
			backs++
			rem, isRem := e.(*ssa.BinOp)
			if !isRem || rem.Op != token.REM || rem.Y != ssa.Value(phi) {
				ok = false
			}
		}
		if ok && backs > 0 {
			return "Euclid-style loop: it is left when " + phiName(phi) + " is 0, and on every cycle " + phiName(phi) + " becomes a remainder modulo itself, whose magnitude is strictly smaller", true
		}
	}
	return "", false
}
