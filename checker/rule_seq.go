package main

import (
	"fmt"
	"go/token"
	"go/types"
	"os"
	"sort"

	"golang.org/x/tools/go/ssa"
)

// SEQ — sequence confinement (DESIGN.md §3 SEQ).
//
// *sequence is the evaluator's internal result list. It may travel inside a reflect.Value
// between the path functions, but it must be unwrapped (asSequence/Value) before it becomes
// part of a value: it may never be stored into memory (a slice element, a map, a struct
// field, another sequence), never be handed to reflect's mutators or to a callable, and never
// be returned by Eval, by `eval`, or by a function bound in the base environment.
//
// For every SSA value of type reflect.Value or interface the engine computes a symbolic mask
// "may wrap a sequence": TOP, or a set of parameters of the enclosing function it is copied
// from (so small helpers like jtypes.Resolve are polyvariant). Loads from memory are "no" by
// the invariant the sinks enforce (induction over execution). The `asSequence(v)` test refines
// v to "no" wherever the `ok == false` edge dominates the use.

const seqTop uint64 = 1 << 63

type seqEngine struct {
	c       *Ctx
	g       *MCG
	scope   PkgSet
	seqT    types.Type // the named type `sequence`
	asSeq   *ssa.Function
	appendM *ssa.Function
	raw     map[ssa.Value]uint64
	ret     map[*ssa.Function][]uint64
	paramC  map[*ssa.Parameter]bool // concrete: some call site passes a possibly-sequence value
	guards  map[ssa.Value][]*ssa.BasicBlock
	changed bool
	prods   int
}

func carrier(t types.Type) bool {
	if isReflectValue(t) {
		return true
	}
	_, ok := t.Underlying().(*types.Interface)
	return ok
}

func (e *seqEngine) isSeqType(t types.Type) bool {
	if p, ok := t.(*types.Pointer); ok {
		t = p.Elem()
	}
	return e.seqT != nil && types.Identical(t, e.seqT)
}

func newSEQ(c *Ctx, g *MCG, pkg *ssa.Package) *seqEngine {
	e := &seqEngine{c: c, g: g, raw: map[ssa.Value]uint64{}, ret: map[*ssa.Function][]uint64{},
		paramC: map[*ssa.Parameter]bool{}, guards: map[ssa.Value][]*ssa.BasicBlock{}}
	if tn, ok := pkg.Pkg.Scope().Lookup("sequence").(*types.TypeName); ok {
		e.seqT = tn.Type()
	}
	e.asSeq = pkg.Func("asSequence")
	if e.seqT != nil {
		if sel := c.W.Prog.MethodSets.MethodSet(types.NewPointer(e.seqT)).Lookup(pkg.Pkg, "Append"); sel != nil {
			e.appendM = c.W.Prog.MethodValue(sel)
		}
	}
	if e.seqT == nil || e.asSeq == nil || e.appendM == nil {
		return e
	}
	for _, f := range g.Funcs {
		if len(f.Blocks) == 0 {
			continue
		}
		e.ret[f] = make([]uint64, f.Signature.Results().Len())
		// refinement points: false successor of `if ok` where ok = asSequence(v)#1
		for _, b := range f.Blocks {
			if v, fb := e.asSeqGuard(b); v != nil && len(fb.Preds) == 1 {
				e.guards[v] = append(e.guards[v], fb)
			}
		}
	}
	for round := 0; round < 200; round++ {
		e.changed = false
		for _, f := range g.Funcs {
			for _, b := range f.Blocks {
				for _, ins := range b.Instrs {
					if v, ok := ins.(ssa.Value); ok {
						e.update(f, v)
					}
					switch ins := ins.(type) {
					case *ssa.Return:
						if !isSuccessReturn(ins) {
							continue
						}
						for i, res := range ins.Results {
							if carrier(res.Type()) {
								nb := e.ret[f][i] | e.at(res, b)
								if nb != e.ret[f][i] {
									e.ret[f][i] = nb
									e.changed = true
								}
							}
						}
					case ssa.CallInstruction:
						for _, callee := range g.Sites[ins] {
							if callee == e.appendM {
								continue // reported at the call site, not propagated
							}
							args := ins.Common().Args
							off := 0
							if ins.Common().IsInvoke() {
								off = 1
							}
							for i, a := range args {
								if i+off >= len(callee.Params) || !carrier(a.Type()) {
									continue
								}
								p := callee.Params[i+off]
								if !e.paramC[p] && e.concrete(f, e.at(a, b)) {
									if os.Getenv("SEQ_DEBUG") != "" {
										fmt.Printf("SEQ param %s of %s gets a possibly-sequence value at %s (%s)\n", p.Name(), shortFn(callee), e.c.W.Pos(ins.Pos()), shortFn(f))
									}
									e.paramC[p] = true
									e.changed = true
								}
							}
						}
					}
				}
			}
		}
		if !e.changed {
			return e
		}
	}
	panic("SEQ fixpoint did not converge")
}

// asSeqGuard: if block b ends in `if ok` with ok = Extract(asSequence(v), 1), return v and the false successor.
func (e *seqEngine) asSeqGuard(b *ssa.BasicBlock) (ssa.Value, *ssa.BasicBlock) {
	if len(b.Instrs) == 0 {
		return nil, nil
	}
	iff, ok := b.Instrs[len(b.Instrs)-1].(*ssa.If)
	if !ok {
		return nil, nil
	}
	ex, ok := iff.Cond.(*ssa.Extract)
	if !ok || ex.Index != 1 {
		return nil, nil
	}
	call, ok := ex.Tuple.(*ssa.Call)
	if !ok || call.Call.StaticCallee() != e.asSeq {
		return nil, nil
	}
	return call.Call.Args[0], b.Succs[1]
}

func (e *seqEngine) at(v ssa.Value, b *ssa.BasicBlock) uint64 {
	m := e.mask(v)
	if m == 0 {
		return 0
	}
	if phi, ok := v.(*ssa.Phi); ok && phi.Parent() == b.Parent() {
		if init, pred, ok := firstIterValue(phi, b); ok {
			return e.at(init, pred)
		}
	}
	for _, g := range e.guards[v] {
		if g.Parent() == b.Parent() && g.Dominates(b) {
			return 0
		}
	}
	return m
}

func (e *seqEngine) mask(v ssa.Value) uint64 {
	if p, ok := v.(*ssa.Parameter); ok {
		if !carrier(p.Type()) {
			return 0
		}
		for i, q := range p.Parent().Params {
			if q == p && i < 63 {
				return 1 << uint(i)
			}
		}
		return seqTop
	}
	return e.raw[v]
}

// concrete: does a symbolic mask denote "may wrap a sequence" in function f, given what f's
// parameters can actually receive?
func (e *seqEngine) concrete(f *ssa.Function, m uint64) bool {
	if m&seqTop != 0 {
		return true
	}
	for i, p := range f.Params {
		if i < 63 && m&(1<<uint(i)) != 0 && e.paramC[p] {
			return true
		}
	}
	return false
}

func (e *seqEngine) setRaw(v ssa.Value, m uint64) {
	if e.raw[v]|m != e.raw[v] {
		e.raw[v] |= m
		e.changed = true
	}
}

// subst instantiates a callee summary with the masks of the actual arguments.
func (e *seqEngine) subst(sum uint64, call ssa.CallInstruction, off int) uint64 {
	out := sum & seqTop
	args := call.Common().Args
	for i := 0; i < 63; i++ {
		if sum&(1<<uint(i)) == 0 {
			continue
		}
		ai := i - off
		if ai < 0 || ai >= len(args) {
			if off == 1 && i == 0 {
				// receiver of an invoke
				out |= e.at(call.Common().Value, call.Block())
			}
			continue
		}
		out |= e.at(args[ai], call.Block())
	}
	return out
}

func (e *seqEngine) callMask(call *ssa.Call, idx int) uint64 {
	cc := call.Common()
	callee := cc.StaticCallee()
	blk := call.Block()
	if callee != nil && !e.g.InSc[callee] {
		p := fnPkg(callee)
		if p != nil && p.Path() == "reflect" {
			if callee.Signature.Recv() == nil {
				if callee.Name() == "ValueOf" {
					return e.at(cc.Args[0], blk)
				}
				return 0
			}
			if isReflectValue(recvType(callee)) {
				switch callee.Name() {
				case "Interface", "Elem", "Addr", "Convert", "Slice", "Slice3", "Index", "Field", "FieldByName", "MapIndex":
					return e.at(cc.Args[0], blk)
				}
			}
		}
		return 0
	}
	var out uint64
	off := 0
	if cc.IsInvoke() {
		off = 1
	}
	for _, c := range e.g.Sites[call] {
		if idx < len(e.ret[c]) {
			out |= e.subst(e.ret[c][idx], call, off)
		}
	}
	return out
}

func (e *seqEngine) update(f *ssa.Function, v ssa.Value) {
	switch v := v.(type) {
	case *ssa.MakeInterface:
		if e.isSeqType(v.X.Type()) {
			if e.raw[v]&seqTop == 0 {
				e.prods++
			}
			e.setRaw(v, seqTop)
		} else if carrier(v.X.Type()) {
			e.setRaw(v, e.at(v.X, v.Block()))
		}
	case *ssa.ChangeInterface:
		e.setRaw(v, e.at(v.X, v.Block()))
	case *ssa.ChangeType:
		if carrier(v.Type()) {
			e.setRaw(v, e.at(v.X, v.Block()))
		}
	case *ssa.TypeAssert:
		if carrier(v.Type()) || isTuple(v.Type()) {
			e.setRaw(v, e.at(v.X, v.Block()))
		}
	case *ssa.Extract:
		if !carrier(v.Type()) {
			return
		}
		switch t := v.Tuple.(type) {
		case *ssa.Call:
			e.setRaw(v, e.callMask(t, v.Index))
		case *ssa.TypeAssert:
			if v.Index == 0 {
				e.setRaw(v, e.raw[t])
			}
		}
	case *ssa.Call:
		if carrier(v.Type()) {
			e.setRaw(v, e.callMask(v, 0))
		}
	case *ssa.Phi:
		if !carrier(v.Type()) {
			return
		}
		for i, ed := range v.Edges {
			pred := v.Block().Preds[i]
			// edge refinement: the false edge of `if asSequence(ed) ok` leading straight to this phi
			if gv, fb := e.asSeqGuard(pred); gv == ed && fb == v.Block() && pred.Succs[0] != fb {
				continue
			}
			e.setRaw(v, e.at(ed, pred))
		}
	case *ssa.UnOp:
		if v.Op != token.MUL || !carrier(v.Type()) {
			return
		}
		if stores, ok := cellStores(v.X); ok {
			for _, s := range stores {
				if e.concrete(s.Parent(), e.at(s.Val, s.Block())) {
					e.setRaw(v, seqTop)
				}
			}
		}
		// every other load is "no" by the invariant enforced at the store sinks
	}
}

var seqExtOK = map[string]bool{"fmt": true, "errors": true}

// runSEQ enumerates producers, consumers and sinks.
func runSEQ(c *Ctx, g *MCG, r *Result, rule string, pkg *ssa.Package, scope PkgSet, roots []*ssa.Function) {
	e := newSEQ(c, g, pkg)
	if e.seqT == nil || e.asSeq == nil || e.appendM == nil {
		r.LoseAnchor("SEQ: type sequence, func asSequence or method (*sequence).Append not found in %s", pkg.Pkg.Path())
		return
	}
	producers, consumers, sinks := 0, 0, 0
	add := func(f *ssa.Function, kind string, ord map[string]int, pos token.Pos, bad bool, why string, nontrivial bool) {
		ord[kind]++
		sinks++
		o := Obligation{Rule: rule, Key: fmt.Sprintf("%s:%s#%d", shortFn(f), kind, ord[kind]), Fn: shortFn(f), Pos: c.W.Pos(pos), Nontrivial: nontrivial}
		if bad {
			o.Verdict, o.Reason = Finding, why
		} else {
			o.Verdict, o.Reason = Discharged, "value cannot wrap a *sequence here (fresh, loaded, unwrapped, or refined by a failed asSequence test)"
		}
		r.Add(o)
	}
	isRoot := map[*ssa.Function]bool{}
	for _, f := range roots {
		isRoot[f] = true
	}
	for _, f := range g.Boxed {
		isRoot[f] = true
	}
	var fns []*ssa.Function
	for _, f := range g.Funcs {
		if p := fnPkg(f); p != nil && scope[p] && f.Synthetic == "" && len(f.Blocks) > 0 {
			fns = append(fns, f)
		}
	}
	sortFns(fns)
	for _, f := range fns {
		ord := map[string]int{}
		var instrs []ssa.Instruction
		for _, b := range f.Blocks {
			instrs = append(instrs, b.Instrs...)
		}
		sort.SliceStable(instrs, func(i, j int) bool { return instrs[i].Pos() < instrs[j].Pos() })
		for _, ins := range instrs {
			b := ins.Block()
			switch ins := ins.(type) {
			case *ssa.MakeInterface:
				if e.isSeqType(ins.X.Type()) {
					producers++
				}
			case *ssa.Store:
				if !carrier(ins.Val.Type()) {
					continue
				}
				if _, isCell := cellStores(ins.Addr); isCell {
					if _, isAlloc := ins.Addr.(*ssa.Alloc); isAlloc {
						continue
					}
					if _, isFV := ins.Addr.(*ssa.FreeVar); isFV {
						continue
					}
				}
				m := e.at(ins.Val, b)
				add(f, "store", ord, ins.Pos(), e.concrete(f, m), "a value that may wrap a *sequence is stored into memory (nesting/escape): "+describeVal(ins.Val), e.mask(ins.Val) != 0)
			case *ssa.MapUpdate:
				if carrier(ins.Value.Type()) {
					m := e.at(ins.Value, b)
					add(f, "mapstore", ord, ins.Pos(), e.concrete(f, m), "a value that may wrap a *sequence is stored into a map", e.mask(ins.Value) != 0)
				}
			case *ssa.Return:
				if !isRoot[f] && f != pkg.Func("eval") {
					continue
				}
				for _, res := range ins.Results {
					if carrier(res.Type()) && !isErrorType(res.Type()) {
						m := e.at(res, b)
						add(f, "return", ord, ins.Pos(), e.concrete(f, m) || m != 0 && f.Name() == "eval", "a value that may wrap a *sequence is returned from an API/built-in/eval boundary", e.mask(res) != 0)
					}
				}
			case ssa.CallInstruction:
				cc := ins.Common()
				callee := cc.StaticCallee()
				if callee == e.asSeq {
					consumers++
					continue
				}
				if callee == e.appendM {
					m := e.at(cc.Args[1], b)
					add(f, "seq-append", ord, ins.Pos(), e.concrete(f, m), "a value that may wrap a *sequence is appended to a sequence unopened (nested sequence)", e.mask(cc.Args[1]) != 0)
					continue
				}
				if callee != nil && !g.InSc[callee] {
					p := fnPkg(callee)
					if p != nil && seqExtOK[p.Path()] {
						continue
					}
					for i, a := range cc.Args {
						if !carrier(a.Type()) {
							continue
						}
						if i == 0 && callee.Signature.Recv() != nil && isReflectValue(recvType(callee)) {
							switch callee.Name() {
							case "Set", "SetMapIndex":
							default:
								continue // read-only use of the carrier itself
							}
							continue
						}
						if p != nil && p.Path() == "reflect" && (callee.Name() == "ValueOf" || callee.Name() == "TypeOf" || callee.Name() == "DeepEqual") {
							continue
						}
						m := e.at(a, b)
						add(f, "ext-arg:"+callee.Name(), ord, ins.Pos(), e.concrete(f, m), "a value that may wrap a *sequence is handed to "+callee.String(), e.mask(a) != 0)
					}
					continue
				}
				if callee == nil && len(g.Sites[ins]) == 0 {
					// unresolved dynamic call / invoke with no in-scope implementation
					for _, a := range cc.Args {
						if carrier(a.Type()) {
							m := e.at(a, b)
							add(f, "dyn-arg", ord, ins.Pos(), e.concrete(f, m), "a value that may wrap a *sequence is handed to an unresolved call", e.mask(a) != 0)
						}
					}
				}
			}
		}
	}
	// the dispatcher must leave S: its return summary is empty
	if ev := pkg.Func("eval"); ev != nil {
		o := Obligation{Rule: rule, Key: "jsonata.eval:unwraps", Fn: "jsonata.eval", Pos: c.W.Pos(ev.Pos()), Nontrivial: true}
		if e.ret[ev][0] == 0 {
			o.Verdict, o.Reason = Discharged, "every success return of eval is the failed-asSequence edge or sequence.Value(): eval never returns a wrapped sequence"
		} else {
			o.Verdict, o.Reason = Finding, "eval may return a value that wraps a *sequence (unwrap idiom missing on some path)"
		}
		r.Add(o)
	} else {
		r.LoseAnchor("SEQ: function eval not found")
	}
	var sfuncs []string
	for _, f := range fns {
		for _, m := range e.ret[f] {
			if m&seqTop != 0 {
				sfuncs = append(sfuncs, shortFn(f))
				break
			}
		}
	}
	r.Note("SEQ: functions that may return a wrapped sequence (S): %v", sfuncs)
	r.Count(rule+" producers (boxing of *sequence)", producers)
	r.Count(rule+" consumers (asSequence call sites)", consumers)
	r.Count(rule+" sink sites examined", sinks)
}

func describeVal(v ssa.Value) string {
	if c, ok := v.(*ssa.Call); ok {
		if f := c.Call.StaticCallee(); f != nil {
			return "result of " + shortFn(f)
		}
	}
	return v.Name() + " (" + v.Type().String() + ")"
}
